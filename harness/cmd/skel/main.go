// skel: translator from /repo's Go source (go/ast only) to the regenerated parts of the Coq model.
//
//	skel locktable <repo> <exempt.txt> <out.v> <out.json>
//	    For every method of the tracked structs: which receiver-reachable fields it reads/writes and which locks it
//	    holds there (Lock/RLock add, Unlock/RUnlock remove, defer ...Unlock never removes, branches restore the set,
//	    unexported helpers inherit the intersection of the locks held at their call sites). A field that no method
//	    ever writes is immutable after construction and needs no lock. Output: coq/gen/LockTable.v (rows + the guard
//	    chosen per field) and a JSON listing for the evidence.
//	skel sync <repo> <out.v>
//	    For the functions the concurrency models are about: the ordered synchronisation events of their bodies.
package main

import (
	"encoding/json"
	"fmt"
	"go/ast"
	"go/parser"
	"go/token"
	"os"
	"path/filepath"
	"sort"
	"strings"
)

var pkgDirs = []string{"store", "store/index", "store/primary/multihash", "store/primary/cid", "store/freelist", "store/filecache"}

type access struct {
	Struct, Field, Fn, Kind string
	Locks                   []string // "Struct.lock:W" / ":R"
	Pos                     string
}

type fnInfo struct {
	recvType string
	name     string
	decl     *ast.FuncDecl
	calls    []callSite // calls to methods of tracked structs
	acc      []access
}

type callSite struct {
	target string   // "Struct.method"
	held   []string // locks held at the call
}

var (
	fset       = token.NewFileSet()
	fieldType  = map[string]map[string]string{} // struct -> field -> type name (tracked structs only)
	lockFields = map[string]map[string]bool{}   // struct -> lock field names
	funcs      = map[string]*fnInfo{}           // "Struct.method"
)

func typeName(e ast.Expr) string {
	switch x := e.(type) {
	case *ast.Ident:
		return x.Name
	case *ast.StarExpr:
		return typeName(x.X)
	case *ast.SelectorExpr:
		return typeName(x.X) + "." + x.Sel.Name
	}
	return ""
}

func baseName(t string) string {
	if i := strings.LastIndex(t, "."); i >= 0 {
		return t[i+1:]
	}
	return t
}

type walker struct {
	fi   *fnInfo
	recv string
	held map[string]string
}

// resolve a selector chain rooted at the receiver: returns (struct owning the last field, field name, ok)
func (w *walker) resolve(e ast.Expr) (string, string, bool) {
	sel, ok := e.(*ast.SelectorExpr)
	if !ok {
		return "", "", false
	}
	if id, ok := sel.X.(*ast.Ident); ok {
		if id.Name == w.recv {
			return w.fi.recvType, sel.Sel.Name, true
		}
		return "", "", false
	}
	st, f, ok := w.resolve(sel.X)
	if !ok {
		return "", "", false
	}
	t := baseName(fieldType[st][f])
	if _, tracked := fieldType[t]; !tracked {
		return "", "", false
	}
	return t, sel.Sel.Name, true
}

func (w *walker) heldList() []string {
	var l []string
	for k, m := range w.held {
		l = append(l, k+":"+m)
	}
	sort.Strings(l)
	return l
}

func (w *walker) lockCall(c *ast.CallExpr) (string, string, bool) {
	sel, ok := c.Fun.(*ast.SelectorExpr)
	if !ok {
		return "", "", false
	}
	switch sel.Sel.Name {
	case "Lock", "Unlock", "RLock", "RUnlock":
		st, f, ok := w.resolve(sel.X)
		if ok && lockFields[st][f] {
			return st + "." + f, sel.Sel.Name, true
		}
	}
	return "", "", false
}

func copyMap(m map[string]string) map[string]string {
	n := map[string]string{}
	for k, v := range m {
		n[k] = v
	}
	return n
}

func (w *walker) block(b *ast.BlockStmt) {
	if b == nil {
		return
	}
	for _, s := range b.List {
		w.stmt(s)
	}
}

func (w *walker) stmt(s ast.Stmt) {
	switch x := s.(type) {
	case *ast.ExprStmt:
		if c, ok := x.X.(*ast.CallExpr); ok {
			if l, op, ok := w.lockCall(c); ok {
				switch op {
				case "Lock":
					w.held[l] = "W"
				case "RLock":
					w.held[l] = "R"
				default:
					delete(w.held, l)
				}
				return
			}
		}
		w.expr(x.X, "R")
	case *ast.DeferStmt:
		if _, _, ok := w.lockCall(x.Call); ok {
			return // released at function exit: held for the rest of the body
		}
		w.expr(x.Call, "R")
	case *ast.GoStmt:
		// the new goroutine starts with no locks
		if fl, ok := x.Call.Fun.(*ast.FuncLit); ok {
			saved := w.held
			w.held = map[string]string{}
			w.block(fl.Body)
			w.held = saved
		} else {
			saved := w.held
			w.held = map[string]string{}
			w.expr(x.Call, "R")
			w.held = saved
		}
	case *ast.AssignStmt:
		for _, r := range x.Rhs {
			w.expr(r, "R")
		}
		for _, l := range x.Lhs {
			w.expr(l, "W")
		}
	case *ast.IncDecStmt:
		w.expr(x.X, "W")
	case *ast.SendStmt:
		w.expr(x.Chan, "R")
		w.expr(x.Value, "R")
	case *ast.ReturnStmt:
		for _, r := range x.Results {
			w.expr(r, "R")
		}
	case *ast.IfStmt:
		if x.Init != nil {
			w.stmt(x.Init)
		}
		w.expr(x.Cond, "R")
		saved := copyMap(w.held)
		w.block(x.Body)
		afterThen := w.held
		w.held = copyMap(saved)
		if x.Else != nil {
			w.stmt(x.Else)
		}
		// after the if: a branch that ends in return/continue/break does not flow on; keep the locks common to the
		// branches that do (approximation: intersection of both, unless the then-branch leaves)
		if endsFlow(x.Body) {
			// then-branch leaves: state is that of the else path
		} else {
			w.held = intersect(afterThen, w.held)
		}
	case *ast.ForStmt:
		if x.Init != nil {
			w.stmt(x.Init)
		}
		if x.Cond != nil {
			w.expr(x.Cond, "R")
		}
		saved := copyMap(w.held)
		w.block(x.Body)
		if x.Post != nil {
			w.stmt(x.Post)
		}
		w.held = saved
	case *ast.RangeStmt:
		w.expr(x.X, "R")
		saved := copyMap(w.held)
		w.block(x.Body)
		w.held = saved
	case *ast.BlockStmt:
		w.block(x)
	case *ast.SelectStmt:
		for _, c := range x.Body.List {
			cc := c.(*ast.CommClause)
			saved := copyMap(w.held)
			if cc.Comm != nil {
				w.stmt(cc.Comm)
			}
			for _, b := range cc.Body {
				w.stmt(b)
			}
			w.held = saved
		}
	case *ast.SwitchStmt:
		if x.Init != nil {
			w.stmt(x.Init)
		}
		if x.Tag != nil {
			w.expr(x.Tag, "R")
		}
		for _, c := range x.Body.List {
			saved := copyMap(w.held)
			for _, b := range c.(*ast.CaseClause).Body {
				w.stmt(b)
			}
			w.held = saved
		}
	case *ast.TypeSwitchStmt:
		for _, c := range x.Body.List {
			saved := copyMap(w.held)
			for _, b := range c.(*ast.CaseClause).Body {
				w.stmt(b)
			}
			w.held = saved
		}
	case *ast.DeclStmt:
		if gd, ok := x.Decl.(*ast.GenDecl); ok {
			for _, sp := range gd.Specs {
				if vs, ok := sp.(*ast.ValueSpec); ok {
					for _, v := range vs.Values {
						w.expr(v, "R")
					}
				}
			}
		}
	case *ast.LabeledStmt:
		w.stmt(x.Stmt)
	}
}

func endsFlow(b *ast.BlockStmt) bool {
	if b == nil || len(b.List) == 0 {
		return false
	}
	switch x := b.List[len(b.List)-1].(type) {
	case *ast.ReturnStmt:
		return true
	case *ast.BranchStmt:
		return x.Tok == token.CONTINUE || x.Tok == token.BREAK || x.Tok == token.GOTO
	case *ast.ExprStmt:
		if c, ok := x.X.(*ast.CallExpr); ok {
			if id, ok := c.Fun.(*ast.Ident); ok && id.Name == "panic" {
				return true
			}
		}
	}
	return false
}

func intersect(a, b map[string]string) map[string]string {
	n := map[string]string{}
	for k, v := range a {
		if v2, ok := b[k]; ok {
			if v == "W" && v2 == "W" {
				n[k] = "W"
			} else {
				n[k] = "R"
			}
		}
	}
	return n
}

func (w *walker) record(st, f, kind string, pos token.Pos) {
	if lockFields[st][f] {
		return
	}
	w.fi.acc = append(w.fi.acc, access{st, f, w.fi.recvType + "." + w.fi.name, kind, w.heldList(), fset.Position(pos).String()})
}

func (w *walker) expr(e ast.Expr, kind string) {
	switch x := e.(type) {
	case *ast.SelectorExpr:
		if st, f, ok := w.resolve(x); ok {
			w.record(st, f, kind, x.Pos())
			// the path leading to the field is read
			if inner, ok := x.X.(*ast.SelectorExpr); ok {
				w.expr(inner, "R")
			}
			return
		}
		w.expr(x.X, "R")
	case *ast.CallExpr:
		if sel, ok := x.Fun.(*ast.SelectorExpr); ok {
			// method call on the receiver or on a tracked field of it
			if id, ok := sel.X.(*ast.Ident); ok && id.Name == w.recv {
				w.fi.calls = append(w.fi.calls, callSite{w.fi.recvType + "." + sel.Sel.Name, w.heldList()})
			} else if st, f, ok := w.resolve(sel.X); ok {
				k := "R"
				ft := baseName(fieldType[st][f])
				_, trackedT := fieldType[ft]
				if mutating[sel.Sel.Name] && !trackedT && !selfSync[ft] {
					k = "W" // the object the field holds is modified (bucket table, writer, file ...)
				}
				w.record(st, f, k, sel.Pos())
				t := baseName(fieldType[st][f])
				if _, tracked := fieldType[t]; tracked {
					w.fi.calls = append(w.fi.calls, callSite{t + "." + sel.Sel.Name, w.heldList()})
				}
				// calling a mutating builtin-like method on a map/slice field is not visible here
			} else {
				w.expr(sel.X, "R")
			}
		} else if id, ok := x.Fun.(*ast.Ident); ok {
			switch id.Name {
			case "delete":
				if len(x.Args) > 0 {
					w.expr(x.Args[0], "W")
					for _, a := range x.Args[1:] {
						w.expr(a, "R")
					}
					return
				}
			case "append", "copy":
			}
		} else {
			w.expr(x.Fun, "R")
		}
		for _, a := range x.Args {
			w.expr(a, "R")
		}
	case *ast.UnaryExpr:
		w.expr(x.X, kind)
	case *ast.BinaryExpr:
		w.expr(x.X, "R")
		w.expr(x.Y, "R")
	case *ast.IndexExpr:
		w.expr(x.X, kind) // writing an element of a map/slice field writes the field's contents
		w.expr(x.Index, "R")
	case *ast.StarExpr:
		w.expr(x.X, kind)
	case *ast.ParenExpr:
		w.expr(x.X, kind)
	case *ast.SliceExpr:
		w.expr(x.X, kind)
	case *ast.CompositeLit:
		for _, el := range x.Elts {
			w.expr(el, "R")
		}
	case *ast.KeyValueExpr:
		w.expr(x.Value, "R")
	case *ast.TypeAssertExpr:
		w.expr(x.X, "R")
	case *ast.FuncLit:
		w.block(x.Body)
	}
}

func load(repo string) {
	var files []*ast.File
	for _, d := range pkgDirs {
		pkgs, err := parser.ParseDir(fset, filepath.Join(repo, d), func(fi os.FileInfo) bool {
			return !strings.HasSuffix(fi.Name(), "_test.go") && !strings.HasPrefix(fi.Name(), "verif_")
		}, 0)
		if err != nil {
			panic(err)
		}
		for _, p := range pkgs {
			for _, f := range p.Files {
				files = append(files, f)
			}
		}
	}
	// struct declarations that contain a mutex are tracked
	for _, f := range files {
		for _, d := range f.Decls {
			gd, ok := d.(*ast.GenDecl)
			if !ok {
				continue
			}
			for _, sp := range gd.Specs {
				ts, ok := sp.(*ast.TypeSpec)
				if !ok {
					continue
				}
				st, ok := ts.Type.(*ast.StructType)
				if !ok {
					continue
				}
				ft := map[string]string{}
				lf := map[string]bool{}
				for _, fld := range st.Fields.List {
					tn := typeName(fld.Type)
					for _, n := range fld.Names {
						ft[n.Name] = tn
						if tn == "sync.Mutex" || tn == "sync.RWMutex" {
							lf[n.Name] = true
						}
					}
				}
				if len(lf) > 0 || ts.Name.Name == "primaryGC" {
					fieldType[ts.Name.Name] = ft
					lockFields[ts.Name.Name] = lf
				}
			}
		}
	}
	for _, f := range files {
		for _, d := range f.Decls {
			fd, ok := d.(*ast.FuncDecl)
			if ok && fd.Recv == nil && fd.Body != nil {
				plainFuncs[fd.Name.Name] = fd
			}
			if !ok || fd.Recv == nil || fd.Body == nil || len(fd.Recv.List[0].Names) == 0 {
				continue
			}
			rt := baseName(typeName(fd.Recv.List[0].Type))
			if _, tracked := fieldType[rt]; !tracked {
				continue
			}
			fi := &fnInfo{recvType: rt, name: fd.Name.Name, decl: fd}
			funcs[rt+"."+fd.Name.Name] = fi
		}
	}
}

// methods that modify the object a field holds
var mutating = map[string]bool{"Put": true, "Write": true, "WriteAt": true, "WriteString": true, "Flush": true, "Reset": true,
	"Close": true, "Truncate": true, "Remove": true, "Clear": true, "PushFront": true, "MoveToFront": true, "Init": true, "Sync": true}

// field types whose objects synchronise themselves: a method call through the field is a READ of the field
// (tracked structs have their own rows; os.File is documented as safe for concurrent use; the primary is an interface
// to a tracked struct)
var selfSync = map[string]bool{"PrimaryStorage": true, "File": true}

func isExported(n string) bool { return n != "" && n[0] >= 'A' && n[0] <= 'Z' }

func main() {
	if len(os.Args) < 3 {
		fmt.Println("usage: skel locktable|sync <repo> ...")
		os.Exit(2)
	}
	load(os.Args[2])
	switch os.Args[1] {
	case "locktable":
		locktable(os.Args[3], os.Args[4], os.Args[5])
	case "sync":
		syncSkeleton(os.Args[3])
	}
}

func locktable(exemptPath, outV, outJSON string) {
	// entry locksets: fixpoint. Exported methods and goroutine bodies start with none; unexported helpers inherit the
	// intersection over their call sites of (locks held at the call + the caller's entry set).
	entry := map[string]map[string]string{}
	var names []string
	for n := range funcs {
		names = append(names, n)
	}
	sort.Strings(names)
	walk := func() {
		for _, n := range names {
			fi := funcs[n]
			fi.calls, fi.acc = nil, nil
			w := &walker{fi: fi, recv: fi.decl.Recv.List[0].Names[0].Name, held: copyMap(entry[n])}
			w.block(fi.decl.Body)
		}
	}
	for _, n := range names {
		entry[n] = map[string]string{}
	}
	for iter := 0; iter < 10; iter++ {
		walk()
		sites := map[string][]map[string]string{}
		for _, n := range names {
			for _, c := range funcs[n].calls {
				m := map[string]string{}
				for _, l := range c.held {
					p := strings.Split(l, ":")
					m[p[0]] = p[1]
				}
				sites[c.target] = append(sites[c.target], m)
			}
		}
		changed := false
		for _, n := range names {
			fi := funcs[n]
			var ne map[string]string
			if isExported(fi.name) || len(sites[n]) == 0 {
				ne = map[string]string{}
			} else {
				for i, m := range sites[n] {
					if i == 0 {
						ne = copyMap(m)
					} else {
						ne = intersect(ne, m)
					}
				}
			}
			if fmt.Sprint(ne) != fmt.Sprint(entry[n]) {
				entry[n] = ne
				changed = true
			}
		}
		if !changed {
			break
		}
	}
	walk()
	// exemptions (each line: <kind> <target> <reason...>):
	//   fn Struct.method        the whole function is outside the concurrent phase (Open-time helper, Close)
	//   field Struct.field      the field is confined to one goroutine / ordered by channel operations
	//   ownreads Struct.field@Struct.method   unlocked READS by the only function that ever writes the field
	exemptField := map[string]string{}
	exemptFn := map[string]string{}
	ownReads := map[string]string{}
	if data, err := os.ReadFile(exemptPath); err == nil {
		for _, l := range strings.Split(string(data), "\n") {
			l = strings.TrimSpace(l)
			if l == "" || l[0] == '#' {
				continue
			}
			p := strings.SplitN(l, " ", 3)
			if len(p) < 3 {
				fmt.Fprintln(os.Stderr, "exemption without a reason:", l)
				os.Exit(2)
			}
			switch p[0] {
			case "fn":
				exemptFn[p[1]] = p[2]
			case "field":
				exemptField[p[1]] = p[2]
			case "ownreads":
				ownReads[p[1]] = p[2]
			}
		}
	}
	var all []access
	for _, n := range names {
		if _, ex := exemptFn[n]; ex {
			continue
		}
		if _, ex := exemptFn["*."+funcs[n].name]; ex {
			continue
		}
		all = append(all, funcs[n].acc...)
	}
	written := map[string]bool{}
	for _, a := range all {
		if a.Kind == "W" {
			written[a.Struct+"."+a.Field] = true
		}
	}
	by := map[string][]access{}
	for _, a := range all {
		k := a.Struct + "." + a.Field
		if !written[k] {
			continue // immutable after construction
		}
		if _, ex := exemptField[k]; ex {
			continue
		}
		if _, ex := ownReads[k+"@"+a.Fn]; ex && a.Kind == "R" {
			continue
		}
		by[k] = append(by[k], a)
	}
	var fields []string
	for k := range by {
		fields = append(fields, k)
	}
	sort.Strings(fields)
	lockID := map[string]int{}
	var lockNames []string
	lid := func(l string) int {
		if id, ok := lockID[l]; ok {
			return id
		}
		lockID[l] = len(lockNames) + 1
		lockNames = append(lockNames, l)
		return lockID[l]
	}
	type jrow struct {
		Field, Fn, Kind, Pos string
		Locks               []string
	}
	var jrows []jrow
	var sb strings.Builder
	sb.WriteString("(* GENERATED by harness/cmd/skel from /repo's current sources - do not edit. *)\nFrom Coq Require Import List Arith.\nFrom STH Require Import Lockset LockTable.\nImport ListNotations.\n\n")
	var guards []string
	var rows []string
	inconsistent := []string{}
	guardOf := map[string][]string{}
	for vi, k := range fields {
		as := by[k]
		// guard set: the locks every WRITE holds exclusively; every read must hold at least one of them
		var cand map[string]bool
		nw := 0
		for _, a := range as {
			if a.Kind != "W" {
				continue
			}
			m := map[string]bool{}
			for _, l := range a.Locks {
				p := strings.Split(l, ":")
				if p[1] == "W" {
					m[p[0]] = true
				}
			}
			if nw == 0 {
				cand = m
			} else {
				for c := range cand {
					if !m[c] {
						delete(cand, c)
					}
				}
			}
			nw++
		}
		var gs []string
		for c := range cand {
			gs = append(gs, c)
		}
		sort.Strings(gs)
		ok := len(gs) > 0
		for _, a := range as {
			if a.Kind == "W" {
				continue
			}
			has := false
			for _, l := range a.Locks {
				if cand[strings.Split(l, ":")[0]] {
					has = true
				}
			}
			if !has {
				ok = false
			}
		}
		if !ok {
			inconsistent = append(inconsistent, k)
		}
		guardOf[k] = gs
		var gids []string
		for _, g := range gs {
			gids = append(gids, fmt.Sprint(lid(g)))
		}
		guards = append(guards, fmt.Sprintf("  | %d => [%s] (* %s guarded by %v *)", vi, strings.Join(gids, "; "), k, gs))
		for _, a := range as {
			var ls []string
			for _, l := range a.Locks {
				p := strings.Split(l, ":")
				md := "Sh"
				if p[1] == "W" {
					md = "Ex"
				}
				ls = append(ls, fmt.Sprintf("(%d, %s)", lid(p[0]), md))
			}
			w := "false"
			if a.Kind == "W" {
				w = "true"
			}
			rows = append(rows, fmt.Sprintf("  {| r_var := %d; r_write := %s; r_held := [%s] |} (* %s %s in %s *)", vi, w, strings.Join(ls, "; "), a.Kind, k, a.Fn))
			jrows = append(jrows, jrow{k, a.Fn, a.Kind, a.Pos, a.Locks})
		}
	}
	sb.WriteString("Definition generated_guard (x : var) : list lock :=\n  match x with\n" + strings.Join(guards, "\n") + "\n  | _ => []\n  end.\n\n")
	sb.WriteString("Definition generated_table : list row := [\n" + strings.Join(rows, ";\n") + "\n].\n\n")
	sb.WriteString("(* the regenerated obligation: every row of the table extracted from the current source respects the guard sets *)\n")
	sb.WriteString("Lemma table_ok : table_consistent generated_guard generated_table = true.\nProof. vm_compute. reflexivity. Qed.\n")
	os.MkdirAll(filepath.Dir(outV), 0o755)
	os.WriteFile(outV, []byte(sb.String()), 0o644)
	ex := map[string]string{}
	for k, v := range exemptField {
		ex["field "+k] = v
	}
	for k, v := range exemptFn {
		ex["fn "+k] = v
	}
	for k, v := range ownReads {
		ex["ownreads "+k] = v
	}
	js, _ := json.MarshalIndent(map[string]interface{}{"fields": fields, "guards": guardOf, "rows": jrows, "locks": lockNames, "inconsistent": inconsistent, "exempt": ex}, "", " ")
	os.WriteFile(outJSON, js, 0o644)
	fmt.Printf("fields=%d rows=%d inconsistent=%v\n", len(fields), len(rows), inconsistent)
}

// ---------------------------------------------------------------------------------------------------------------
// sync skeleton: the ordered synchronisation events of the functions the concurrency models are about

// plain (receiver-less) functions whose skeletons are generated too, and plain calls that are recorded although they carry no selector
var plainFuncs = map[string]*ast.FuncDecl{}
var syncPlain = []string{"OpenStore", "translateIndex", "finishIndexTranslation", "remapIndex", "processFreeList"}
var namedPlainCalls = map[string]bool{"finishIndexTranslation": true, "writeTranslationJournal": true, "translateIndex": true, "copyFile": true,
	"writeHeader": true, "remapIndex": true, "upgradeIndex": true, "deleteRecords": true}

var syncFuncs = []string{"Store.Flush", "Store.flushTick", "Store.commit", "Store.Close", "Store.run", "Store.Put", "Store.Remove", "Store.Get",
	"Store.Has", "Store.GetSize", "primaryGC.reapRecords", "primaryGC.gc", "Index.gc", "Index.truncateFreeFiles",
	"primaryGC.run", "primaryGC.close", "MultihashPrimary.Close", "Index.garbageCollector", "Index.Close", "Index.Put", "Index.Update", "Index.update",
	"Index.Remove", "Index.remove", "Index.Get", "Index.Flush", "MultihashPrimary.Flush", "MultihashPrimary.Put", "FreeList.ToGC", "FreeList.FlushN",
	"FileCache.Open", "FileCache.Close", "FileCache.Remove", "FileCache.Clear", "FileCache.SetCacheSize", "FileCache.Len", "FileCache.Cap"}

type sk struct {
	ev       []string
	recv     string // receiver identifier of the function being walked
	recvType string
	depth    int
	stack    map[string]bool
	alias    map[string]string // local variable -> the call it was assigned from (a lock obtained from a method is named after the method)
}

func exprStr(e ast.Expr) string {
	switch x := e.(type) {
	case *ast.Ident:
		return x.Name
	case *ast.SelectorExpr:
		return exprStr(x.X) + "." + x.Sel.Name
	case *ast.CallExpr:
		return exprStr(x.Fun) + "()"
	case *ast.StarExpr:
		return exprStr(x.X)
	case *ast.ParenExpr:
		return exprStr(x.X)
	case *ast.UnaryExpr:
		return exprStr(x.X)
	case *ast.IndexExpr:
		return exprStr(x.X)
	}
	return "?"
}

func (k *sk) add(c, a string) { k.ev = append(k.ev, fmt.Sprintf("%s \"%s\"", c, a)) }
func (k *sk) mark(c string)   { k.ev = append(k.ev, c) }

func (k *sk) block(b *ast.BlockStmt) {
	if b == nil {
		return
	}
	for _, s := range b.List {
		k.stmt(s)
	}
}

func (k *sk) call(c *ast.CallExpr, deferred bool) {
	if sel, ok := c.Fun.(*ast.SelectorExpr); ok {
		switch sel.Sel.Name {
		case "Lock", "RLock", "Unlock", "RUnlock":
			n := sel.Sel.Name
			if deferred {
				n = "Defer" + n
			}
			name := exprStr(sel.X)
			if a, ok := k.alias[name]; ok {
				name = a // the lock is named after where it comes from, not after the local variable that holds it
			}
			k.add("S"+n, name)
			return
		}
		if id, ok := sel.X.(*ast.Ident); ok && id.Name == "verifhook" {
			if len(c.Args) == 1 {
				if bl, ok := c.Args[0].(*ast.BasicLit); ok {
					k.add("SYield", strings.Trim(bl.Value, "\""))
				}
			}
			return
		}
		if id, ok := sel.X.(*ast.Ident); ok && id.Name == "log" {
			return
		}
	}
	if id, ok := c.Fun.(*ast.Ident); ok && id.Name == "close" && len(c.Args) == 1 {
		n := "SClose"
		if deferred {
			n = "SDeferClose"
		}
		k.add(n, exprStr(c.Args[0]))
		return
	}
	for _, a := range c.Args {
		k.expr(a)
	}
	if fl, ok := c.Fun.(*ast.FuncLit); ok {
		k.block(fl.Body)
		return
	}
	name := exprStr(c.Fun)
	// an unexported helper method called on the receiver is part of the caller's body: inline its events, so that
	// extracting or inlining a helper does not change the skeleton
	if sel, ok := c.Fun.(*ast.SelectorExpr); ok && !deferred {
		if id, ok := sel.X.(*ast.Ident); ok && id.Name == k.recv && !isExported(sel.Sel.Name) {
			target := k.recvType + "." + sel.Sel.Name
			if fi, ok := funcs[target]; ok && k.depth < 6 && !k.stack[target] && !keepCall[target] {
				sub := &sk{recv: fi.decl.Recv.List[0].Names[0].Name, recvType: k.recvType, depth: k.depth + 1, stack: map[string]bool{target: true}}
				for t := range k.stack {
					sub.stack[t] = true
				}
				sub.block(fi.decl.Body)
				for _, e := range sub.ev {
					if e == "SReturn" {
						continue // a return of the helper is not a return of the caller
					}
					k.ev = append(k.ev, strings.ReplaceAll(e, "\""+sub.recv+".", "\""+k.recv+"."))
				}
				return
			}
		}
	}
	if strings.Contains(name, ".") || name == "panic" || namedPlainCalls[name] {
		n := "SCall"
		if deferred {
			n = "SDeferCall"
		}
		k.add(n, name)
	}
}

// helpers the predicates name as calls (they are steps of their own in the models): not inlined
var keepCall = map[string]bool{"Store.commit": true, "Store.outstandingWork": true, "Index.getRecordsFromBucket": true, "Index.readBucketInfo": true,
	"Index.readDiskBucket": true, "Index.flushBucket": true, "Index.saveBucketState": true, "Index.getBucketIndex": true,
	"MultihashPrimary.flushBlock": true, "primaryGC.close": true, "primaryGC.gc": true, "Index.gc": true}

func (k *sk) expr(e ast.Expr) {
	switch x := e.(type) {
	case *ast.CallExpr:
		k.call(x, false)
	case *ast.UnaryExpr:
		if x.Op == token.ARROW {
			k.add("SRecv", exprStr(x.X))
			return
		}
		k.expr(x.X)
	case *ast.BinaryExpr:
		k.expr(x.X)
		k.expr(x.Y)
	case *ast.ParenExpr:
		k.expr(x.X)
	case *ast.FuncLit:
		k.block(x.Body)
	case *ast.SelectorExpr, *ast.Ident, *ast.BasicLit:
	case *ast.IndexExpr:
		k.expr(x.X)
		k.expr(x.Index)
	case *ast.CompositeLit:
		for _, el := range x.Elts {
			k.expr(el)
		}
	case *ast.KeyValueExpr:
		k.expr(x.Value)
	case *ast.TypeAssertExpr:
		k.expr(x.X)
	case *ast.StarExpr:
		k.expr(x.X)
	}
}

func (k *sk) stmt(s ast.Stmt) {
	switch x := s.(type) {
	case *ast.ExprStmt:
		k.expr(x.X)
	case *ast.DeferStmt:
		k.call(x.Call, true)
	case *ast.GoStmt:
		k.add("SGo", exprStr(x.Call.Fun))
		if fl, ok := x.Call.Fun.(*ast.FuncLit); ok {
			k.mark("SGoBody")
			k.block(fl.Body)
			k.mark("SEndGo")
		}
	case *ast.AssignStmt:
		for _, r := range x.Rhs {
			k.expr(r)
		}
		if len(x.Lhs) == 1 && len(x.Rhs) == 1 {
			if id, ok := x.Lhs[0].(*ast.Ident); ok {
				if c, ok := x.Rhs[0].(*ast.CallExpr); ok {
					if k.alias == nil {
						k.alias = map[string]string{}
					}
					k.alias[id.Name] = exprStr(c.Fun)
				}
			}
		}
		for _, l := range x.Lhs {
			if strings.Contains(exprStr(l), ".") {
				k.add("SAssign", exprStr(l))
			}
		}
	case *ast.IncDecStmt:
	case *ast.SendStmt:
		k.add("SSend", exprStr(x.Chan))
	case *ast.ReturnStmt:
		for _, r := range x.Results {
			k.expr(r)
		}
		k.mark("SReturn")
	case *ast.IfStmt:
		if x.Init != nil {
			k.stmt(x.Init)
		}
		k.expr(x.Cond)
		k.mark("SIf")
		k.block(x.Body)
		if x.Else != nil {
			k.mark("SElse")
			k.stmt(x.Else)
		}
		k.mark("SEndIf")
	case *ast.ForStmt:
		k.mark("SLoop")
		if x.Init != nil {
			k.stmt(x.Init)
		}
		if x.Cond != nil {
			k.expr(x.Cond)
		}
		k.block(x.Body)
		k.mark("SEndLoop")
	case *ast.RangeStmt:
		k.expr(x.X)
		k.mark("SLoop")
		k.block(x.Body)
		k.mark("SEndLoop")
	case *ast.BlockStmt:
		k.block(x)
	case *ast.SelectStmt:
		k.mark("SSelect")
		for _, c := range x.Body.List {
			cc := c.(*ast.CommClause)
			if cc.Comm == nil {
				k.mark("SDefault")
			} else {
				k.mark("SCase")
				k.stmt(cc.Comm)
			}
			for _, b := range cc.Body {
				k.stmt(b)
			}
		}
		k.mark("SEndSelect")
	case *ast.SwitchStmt:
		if x.Init != nil {
			k.stmt(x.Init)
		}
		if x.Tag != nil {
			k.expr(x.Tag)
		}
		for _, c := range x.Body.List {
			k.mark("SCase")
			for _, b := range c.(*ast.CaseClause).Body {
				k.stmt(b)
			}
		}
	case *ast.DeclStmt:
		if gd, ok := x.Decl.(*ast.GenDecl); ok {
			for _, sp := range gd.Specs {
				if vs, ok := sp.(*ast.ValueSpec); ok {
					for _, v := range vs.Values {
						k.expr(v)
					}
				}
			}
		}
	case *ast.LabeledStmt:
		k.stmt(x.Stmt)
	case *ast.BranchStmt:
		if x.Tok == token.CONTINUE {
			k.mark("SContinue")
		} else if x.Tok == token.BREAK {
			k.mark("SBreak")
		}
	}
}

func syncSkeleton(outV string) {
	var sb strings.Builder
	sb.WriteString("(* GENERATED by harness/cmd/skel from /repo's current sources - do not edit. *)\nFrom Coq Require Import List String.\nFrom STH Require Import SyncWf.\nImport ListNotations.\nOpen Scope string_scope.\n\n")
	var names []string
	for _, n := range syncFuncs {
		fi, ok := funcs[n]
		id := "skel_" + strings.ReplaceAll(n, ".", "_")
		if !ok {
			fmt.Fprintf(&sb, "Definition %s : list sev := [SMissing]. (* function not found in the source *)\n", id)
			names = append(names, id)
			continue
		}
		k := &sk{recv: fi.decl.Recv.List[0].Names[0].Name, recvType: fi.recvType, stack: map[string]bool{n: true}}
		k.block(fi.decl.Body)
		fmt.Fprintf(&sb, "Definition %s : list sev := [\n  %s\n].\n", id, strings.Join(k.ev, ";\n  "))
		names = append(names, id)
	}
	for _, n := range syncPlain {
		id := "skel_" + n
		fd, ok := plainFuncs[n]
		if !ok {
			fmt.Fprintf(&sb, "Definition %s : list sev := [SMissing]. (* function not found in the source *)\n", id)
			names = append(names, id)
			continue
		}
		k := &sk{recv: "", recvType: "", stack: map[string]bool{n: true}}
		k.block(fd.Body)
		fmt.Fprintf(&sb, "Definition %s : list sev := [\n  %s\n].\n", id, strings.Join(k.ev, ";\n  "))
		names = append(names, id)
	}
	os.MkdirAll(filepath.Dir(outV), 0o755)
	os.WriteFile(outV, []byte(sb.String()), 0o644)
	fmt.Printf("functions=%d\n", len(names))
}
