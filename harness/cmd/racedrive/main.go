// racedrive runs a mixed concurrent workload (public calls, explicit flushes,
// the background flusher, both collectors, storage-size queries, file-cache
// resizing, rate-limited writers) on the store built from /repo's current tree.
// Build it with -race: the race detector's reports are the output that matters.
//
//	racedrive <seed> <millis>
package main

import (
	"context"
	"fmt"
	"math/rand"
	"os"
	"path/filepath"
	"strconv"
	"sync"
	"sync/atomic"
	"time"

	"github.com/ipld/go-storethehash/store"
	mhprimary "github.com/ipld/go-storethehash/store/primary/multihash"
)

func key(b, c byte) []byte { return []byte{0x12, 6, 7, 7, b, c, c, b} }

func main() {
	seed, _ := strconv.ParseInt(os.Args[1], 10, 64)
	ms, _ := strconv.Atoi(os.Args[2])
	dir, _ := os.MkdirTemp("", "race")
	defer os.RemoveAll(dir)
	s, err := store.OpenStore(context.Background(), store.MultihashPrimary, filepath.Join(dir, "d"), filepath.Join(dir, "i"), false,
		store.IndexBitSize(8), store.IndexFileSize(400), store.PrimaryFileSize(300), store.GCInterval(time.Hour),
		store.GCTimeLimit(20*time.Millisecond), store.SyncInterval(10*time.Millisecond), store.BurstRate(1), store.FileCacheSize(2))
	if err != nil {
		panic(err)
	}
	s.Start()
	s.VerifSetFlushRate(1e-9)
	var stop atomic.Bool
	var wg sync.WaitGroup
	var ops atomic.Int64
	worker := func(id int, f func(r *rand.Rand)) {
		wg.Add(1)
		go func() {
			defer wg.Done()
			r := rand.New(rand.NewSource(seed*100 + int64(id)))
			for !stop.Load() {
				f(r)
				ops.Add(1)
			}
		}()
	}
	for w := 0; w < 4; w++ {
		worker(w, func(r *rand.Rand) {
			k := key(byte(r.Intn(3)), byte(r.Intn(6)))
			switch r.Intn(6) {
			case 0, 1:
				v := make([]byte, 1+r.Intn(30))
				s.Put(k, v)
			case 2:
				s.Get(k)
			case 3:
				s.Has(k)
			case 4:
				s.GetSize(k)
			default:
				s.Remove(k)
			}
		})
	}
	worker(10, func(r *rand.Rand) { s.Flush(); time.Sleep(time.Millisecond) })
	worker(11, func(r *rand.Rand) { s.StorageSize(); s.IndexStorageSize(); s.FreelistStorageSize(); time.Sleep(200 * time.Microsecond) })
	worker(12, func(r *rand.Rand) { s.SetFileCacheSize(r.Intn(4)); time.Sleep(time.Millisecond) })
	worker(13, func(r *rand.Rand) {
		s.Primary().(*mhprimary.MultihashPrimary).GC(context.Background(), int64(10+r.Intn(80)))
		time.Sleep(2 * time.Millisecond)
	})
	worker(14, func(r *rand.Rand) { s.Index().VerifGC(context.Background(), r.Intn(2) == 0); time.Sleep(2 * time.Millisecond) })
	worker(15, func(r *rand.Rand) { s.VerifSetFlushRate(1e-9); time.Sleep(5 * time.Millisecond) })
	time.Sleep(time.Duration(ms) * time.Millisecond)
	stop.Store(true)
	wg.Wait()
	s.Close()
	fmt.Println("ops:", ops.Load())
}
