// witness runs named regression scenarios against the store built from /repo's
// current tree. Each scenario is a minimised history on which a property once
// failed; it states the property's verdict on the real code (PASS = holds).
//
//	witness list            print the scenario names
//	witness run <name>...   run scenarios (all if none given); one line per
//	                        scenario: "<name> PASS|FAIL <property> <detail>"
//
// Exit status 0 iff every scenario run passed. A scenario that panics is
// reported as FAIL with the panic text.
package main

import (
	"bytes"
	"context"
	"encoding/binary"
	"fmt"
	"math/rand"
	"os"
	"os/exec"
	"path/filepath"
	"sort"
	"sync"
	"time"

	storethehash "github.com/ipld/go-storethehash"
	"github.com/ipld/go-storethehash/store"
	"github.com/ipld/go-storethehash/store/filecache"
	"github.com/ipld/go-storethehash/store/index"
	"github.com/ipld/go-storethehash/store/types"
	mhprimary "github.com/ipld/go-storethehash/store/primary/multihash"
	"github.com/ipld/go-storethehash/store/verifhook"

	blocks "github.com/ipfs/go-block-format"
	"github.com/ipfs/go-cid"
	"github.com/multiformats/go-multihash"
)

func key(b byte) []byte         { return []byte{0x12, 6, 7, 7, 7, b, b, b} }
func val(c byte, n int) []byte { return bytes.Repeat([]byte{c}, n) }

func openAt(dir string, pmax uint32) *store.Store {
	s, err := store.OpenStore(context.Background(), store.MultihashPrimary, filepath.Join(dir, "d"), filepath.Join(dir, "i"), false,
		store.IndexBitSize(8), store.IndexFileSize(1<<20), store.PrimaryFileSize(pmax), store.GCInterval(time.Hour), store.SyncInterval(time.Hour))
	if err != nil {
		panic(err)
	}
	return s
}

func must(err error) {
	if err != nil {
		panic(err)
	}
}

func tmp(name string) string {
	d, err := os.MkdirTemp("", "wit-"+name)
	must(err)
	return d
}

func copyDir(src string) string {
	dst := tmp("crash")
	must(exec.Command("cp", "-r", src+"/.", dst).Run())
	return dst
}

func gc(s *store.Store, lowUse int64) (int64, error) {
	return s.Primary().(*mhprimary.MultihashPrimary).GC(context.Background(), lowUse)
}

func expect(s *store.Store, k []byte, want []byte, present bool) (bool, string) {
	v, ok, err := s.Get(k)
	if err != nil {
		return false, fmt.Sprintf("Get(%x) error %v", k, err)
	}
	if ok != present {
		return false, fmt.Sprintf("Get(%x) found=%v want found=%v", k, ok, present)
	}
	if present && !bytes.Equal(v, want) {
		return false, fmt.Sprintf("Get(%x)=%q want %q", k, v, want)
	}
	return true, ""
}

type scenario struct {
	name, prop, what string
	run              func() (bool, string)
}

// lowUseFile leaves file 0 of a PrimaryFileSize(100) store with the records
// a,b,c,k9 of which a,b,c are superseded and flushed: k9 is its last busy record.
func lowUseFile(s *store.Store) {
	must(s.Put(key(1), val('a', 18)))
	must(s.Put(key(2), val('b', 18)))
	must(s.Put(key(3), val('c', 18)))
	must(s.Put(key(9), val('1', 18)))
	must(s.Flush())
	must(s.Put(key(1), val('A', 18)))
	must(s.Put(key(2), val('B', 18)))
	must(s.Put(key(3), val('C', 18)))
	must(s.Flush())
}

var scenarios = []scenario{
	{"F1-empty-value-after-foreign-block", "C01", "Put(k2, empty) when the index answers k2 with another key's block", func() (bool, string) {
		dir := tmp("f1")
		defer os.RemoveAll(dir)
		s := openAt(dir, 1<<20)
		defer s.Close()
		must(s.Put(key(1), val('a', 5)))
		must(s.Put(key(2), []byte{}))
		return expect(s, key(2), []byte{}, true)
	}},
	{"F2-nil-value-read-before-flush", "C01", "Put(k, nil) then Get before the first flush", func() (bool, string) {
		dir := tmp("f2")
		defer os.RemoveAll(dir)
		s := openAt(dir, 1<<20)
		defer s.Close()
		must(s.Put(key(1), nil))
		if ok, d := expect(s, key(1), nil, true); !ok {
			return ok, d
		}
		must(s.Flush())
		return expect(s, key(1), nil, true)
	}},
	{"F3-relocate-two-records", "C04", "low-use relocation of two records keeps both values", func() (bool, string) {
		dir := tmp("f3")
		defer os.RemoveAll(dir)
		s := openAt(dir, 100)
		defer s.Close()
		must(s.Put(key(1), val('a', 18)))
		must(s.Put(key(2), val('b', 18)))
		must(s.Put(key(3), val('c', 18)))
		must(s.Put(key(9), val('1', 18)))
		must(s.Flush())
		must(s.Put(key(1), val('A', 18)))
		must(s.Put(key(2), val('B', 18)))
		must(s.Flush())
		for i := 0; i < 2; i++ {
			if _, err := gc(s, 40); err != nil {
				return false, "gc: " + err.Error()
			}
		}
		if ok, d := expect(s, key(3), val('c', 18), true); !ok {
			return ok, d
		}
		if ok, d := expect(s, key(9), val('1', 18), true); !ok {
			return ok, d
		}
		must(s.Flush())
		if ok, d := expect(s, key(3), val('c', 18), true); !ok {
			return ok, d
		}
		return expect(s, key(9), val('1', 18), true)
	}},
	{"F4-freelist-entry-for-unflushed-block", "C04", "GC with an unflushed overwrite, then relocation of the stale record", func() (bool, string) {
		dir := tmp("f4")
		defer os.RemoveAll(dir)
		s := openAt(dir, 100)
		defer s.Close()
		must(s.Put(key(9), val('1', 18)))
		must(s.Put(key(1), val('a', 18)))
		must(s.Put(key(2), val('b', 18)))
		must(s.Put(key(3), val('c', 18)))
		must(s.Put(key(9), val('2', 18)))
		if _, err := gc(s, 0); err != nil {
			return false, "gc: " + err.Error()
		}
		must(s.Flush())
		must(s.Put(key(2), val('B', 18)))
		must(s.Put(key(3), val('C', 18)))
		must(s.Flush())
		for i := 0; i < 3; i++ {
			if _, err := gc(s, 50); err != nil {
				return false, "gc: " + err.Error()
			}
			must(s.Flush())
			if ok, d := expect(s, key(9), val('2', 18), true); !ok {
				return ok, fmt.Sprintf("after cycle %d: %s", i, d)
			}
		}
		return true, ""
	}},
	{"F5-freelist-entry-in-missing-file", "C04", "GC when a freelist entry names a primary file that does not exist yet", func() (bool, string) {
		dir := tmp("f5")
		defer os.RemoveAll(dir)
		s := openAt(dir, 1)
		defer s.Close()
		must(s.Put(key(1), val('a', 5)))
		must(s.Put(key(2), val('b', 5)))
		must(s.Put(key(2), val('c', 5)))
		if _, err := gc(s, 0); err != nil {
			return false, "gc: " + err.Error()
		}
		return expect(s, key(2), val('c', 5), true)
	}},
	{"F6-hash-on-read-disabled", "C15", "HashOnRead(false) performs no check", func() (bool, string) {
		dir := tmp("f6")
		defer os.RemoveAll(dir)
		bs, err := storethehash.OpenHashedBlockstore(context.Background(), filepath.Join(dir, "i"), filepath.Join(dir, "d"),
			store.GCInterval(time.Hour), store.SyncInterval(time.Hour))
		must(err)
		defer bs.Close()
		ctx := context.Background()
		data := []byte("some block data")
		mh, _ := multihash.Sum([]byte("other data"), multihash.SHA2_256, -1)
		c := cid.NewCidV1(cid.Raw, mh)
		blk, _ := blocks.NewBlockWithCid(data, c) // stored bytes do not hash to the CID
		must(bs.Put(ctx, blk))
		bs.HashOnRead(false)
		got, err := bs.Get(ctx, c)
		if err != nil {
			return false, "Get with hash-on-read disabled: " + err.Error()
		}
		if !bytes.Equal(got.RawData(), data) {
			return false, "wrong bytes"
		}
		bs.HashOnRead(true)
		if _, err = bs.Get(ctx, c); err == nil {
			return false, "hash-on-read enabled accepted mismatching bytes"
		}
		return true, ""
	}},
	{"F7-filecache-untracked-handle", "C14", "Close of a handle opened at capacity 0 after the name was cached", func() (bool, string) {
		dir := tmp("f7")
		defer os.RemoveAll(dir)
		name := filepath.Join(dir, "x")
		must(os.WriteFile(name, []byte("hello"), 0o644))
		c := filecache.New(0)
		f0, err := c.Open(name)
		must(err)
		c.SetCacheSize(2)
		f1, err := c.Open(name)
		must(err)
		must(c.Close(f0))
		c.Remove(name)
		buf := make([]byte, 5)
		if _, err := f1.ReadAt(buf, 0); err != nil {
			return false, "lent handle was closed: " + err.Error()
		}
		if _, err := f0.ReadAt(buf, 0); err == nil {
			return false, "released untracked handle was not closed"
		}
		if err := c.Close(f1); err != nil {
			return false, "Close(second): " + err.Error()
		}
		return true, ""
	}},
	{"F18-filecache-shrink-after-zero", "C14", "SetCacheSize 0, then grow, then shrink with nothing cached", func() (bool, string) {
		c := filecache.New(2)
		c.SetCacheSize(0)
		c.SetCacheSize(3)
		c.SetCacheSize(2)
		if c.Cap() != 2 || c.Len() != 0 {
			return false, fmt.Sprintf("cap=%d len=%d", c.Cap(), c.Len())
		}
		return true, ""
	}},
	{"F8-close-writes-index-before-primary", "C03", "crash image taken between the two closes of Store.Close", func() (bool, string) {
		dir := tmp("f8")
		defer os.RemoveAll(dir)
		s := openAt(dir, 1<<20)
		must(s.Put(key(9), val('1', 18)))
		must(s.Flush())
		must(s.Put(key(9), val('2', 18)))
		var crash string
		verifhook.Set(func(p string) {
			if p == "store.Close.betweenCloses" && crash == "" {
				crash = copyDir(dir)
			}
		})
		must(s.Close())
		verifhook.Set(nil)
		if crash == "" {
			return false, "yield point store.Close.betweenCloses not reached"
		}
		defer os.RemoveAll(crash)
		os.Remove(filepath.Join(crash, "i.buckets"))
		r := openAt(crash, 1<<20)
		defer r.Close()
		v, ok, err := r.Get(key(9))
		if err != nil || !ok || !(bytes.Equal(v, val('1', 18)) || bytes.Equal(v, val('2', 18))) {
			return false, fmt.Sprintf("after crash inside Close: Get(k) found=%v err=%v val=%q", ok, err, v)
		}
		return true, ""
	}},
	{"F9-lost-wakeup", "C12", "writer measures, a flush completes, writer registers and waits; later flushes must release it", func() (bool, string) {
		dir := tmp("f9")
		defer os.RemoveAll(dir)
		s, err := store.OpenStore(context.Background(), store.MultihashPrimary, filepath.Join(dir, "d"), filepath.Join(dir, "i"), false,
			store.IndexBitSize(8), store.GCInterval(time.Hour), store.SyncInterval(time.Hour), store.BurstRate(1))
		must(err)
		s.VerifSetFlushRate(1e-9) // any inbound rate exceeds it
		fired := false
		verifhook.Set(func(p string) {
			if p == "store.flushTick.afterMeasure" && !fired {
				fired = true
				must(s.Flush()) // a complete flush lands between the writer's measurement and its registration
				s.VerifSetFlushRate(1e-9)
			}
		})
		done := make(chan error, 1)
		go func() { done <- s.Put(key(1), val('a', 18)) }()
		deadline := time.After(3 * time.Second)
		tick := time.NewTicker(20 * time.Millisecond)
		defer tick.Stop()
		for {
			select {
			case err := <-done:
				verifhook.Set(nil)
				s.Close()
				if err != nil {
					return false, "Put: " + err.Error()
				}
				if !fired {
					return false, "yield point store.flushTick.afterMeasure not reached"
				}
				return true, ""
			case <-tick.C:
				must(s.Flush()) // flushes keep succeeding
			case <-deadline:
				verifhook.Set(nil)
				// leave the blocked writer behind; the process exits after the run
				return false, "writer still blocked after 3 s and 100+ successful Flush calls"
			}
		}
	}},
	{"F11-stale-record-relocated-after-crash", "C03", "crash lost a freelist entry; later low-use relocation must not revert the key", func() (bool, string) {
		dir := tmp("f11")
		defer os.RemoveAll(dir)
		s := openAt(dir, 100)
		lowUseFile(s)
		st, _ := os.Stat(filepath.Join(dir, "i.free"))
		freeLen := st.Size()
		must(s.Put(key(9), val('2', 18)))
		must(s.Flush())
		crash := copyDir(dir)
		defer os.RemoveAll(crash)
		s.Close()
		must(os.Truncate(filepath.Join(crash, "i.free"), freeLen))
		os.Remove(filepath.Join(crash, "i.buckets"))
		r := openAt(crash, 100)
		defer r.Close()
		if ok, d := expect(r, key(9), val('2', 18), true); !ok {
			return ok, "after restart: " + d
		}
		for i := 0; i < 3; i++ {
			if _, err := gc(r, 25); err != nil {
				return false, "gc: " + err.Error()
			}
			must(r.Flush())
			if ok, d := expect(r, key(9), val('2', 18), true); !ok {
				return ok, fmt.Sprintf("after gc cycle %d: %s", i, d)
			}
		}
		return true, ""
	}},
	{"F12-gc-before-flush-then-crash", "C03", "Put;Flush;Put;GC;crash keeps the flushed value", func() (bool, string) {
		dir := tmp("f12")
		defer os.RemoveAll(dir)
		s := openAt(dir, 1<<20)
		defer s.Close()
		must(s.Put(key(9), val('1', 18)))
		must(s.Put(key(1), val('a', 18)))
		must(s.Flush())
		must(s.Put(key(9), val('2', 18)))
		if _, err := gc(s, 85); err != nil {
			return false, "gc: " + err.Error()
		}
		crash := copyDir(dir)
		defer os.RemoveAll(crash)
		r := openAt(crash, 1<<20)
		defer r.Close()
		v, ok, err := r.Get(key(9))
		if err != nil || !ok || !(bytes.Equal(v, val('1', 18)) || bytes.Equal(v, val('2', 18))) {
			return false, fmt.Sprintf("after restart: Get(k) found=%v err=%v val=%q", ok, err, v)
		}
		return true, ""
	}},
	{"F12b-writer-inside-commit-then-crash", "C03", "writer between index flush and freelist flush; crash; GC", func() (bool, string) {
		dir := tmp("f12b")
		defer os.RemoveAll(dir)
		s := openAt(dir, 1<<20)
		defer s.Close()
		must(s.Put(key(9), val('1', 18)))
		must(s.Flush())
		must(s.Put(key(1), val('a', 18)))
		fired := false
		verifhook.Set(func(p string) {
			if p == "store.commit.afterIndexFlush" && !fired {
				fired = true
				must(s.Put(key(9), val('2', 18)))
			}
		})
		must(s.Flush())
		verifhook.Set(nil)
		if !fired {
			return false, "yield point store.commit.afterIndexFlush not reached"
		}
		crash := copyDir(dir)
		defer os.RemoveAll(crash)
		os.Remove(filepath.Join(crash, "i.buckets"))
		r := openAt(crash, 1<<20)
		defer r.Close()
		if _, err := gc(r, 85); err != nil {
			return false, "gc: " + err.Error()
		}
		v, ok, err := r.Get(key(9))
		if err != nil || !ok || !(bytes.Equal(v, val('1', 18)) || bytes.Equal(v, val('2', 18))) {
			return false, fmt.Sprintf("after restart + gc: Get(k) found=%v err=%v val=%q", ok, err, v)
		}
		return true, ""
	}},
	{"F13-torn-index-size-prefix", "C03", "two stray bytes at the end of an index file; flush; second restart", func() (bool, string) {
		dir := tmp("f13")
		defer os.RemoveAll(dir)
		s := openAt(dir, 1<<20)
		for b := byte(1); b <= 6; b++ {
			must(s.Put(key(b), val('a'+b, 10)))
		}
		must(s.Flush())
		crash := copyDir(dir)
		defer os.RemoveAll(crash)
		s.Close()
		os.Remove(filepath.Join(crash, "i.buckets"))
		f, err := os.OpenFile(filepath.Join(crash, "i.0"), os.O_WRONLY|os.O_APPEND, 0)
		must(err)
		f.Write([]byte{40, 0}) // a torn size prefix
		f.Close()
		r := openAt(crash, 1<<20)
		must(r.Put(key(7), val('n', 10)))
		must(r.Put(key(1), val('N', 10)))
		must(r.Flush())
		img := copyDir(crash)
		defer os.RemoveAll(img)
		r.Close()
		os.Remove(filepath.Join(img, "i.buckets"))
		r2 := openAt(img, 1<<20)
		defer r2.Close()
		if ok, d := expect(r2, key(7), val('n', 10), true); !ok {
			return ok, "after second restart: " + d
		}
		return expect(r2, key(1), val('N', 10), true)
	}},
	{"F20-torn-primary-record", "C03", "a crash tore the last primary record; records written after the restart must survive garbage collection of that file", func() (bool, string) {
		for _, stray := range [][]byte{{0x0c, 0, 0, 0, 0x12, 6}, {0x10, 0, 0, 0x80, 1, 2, 3}, {0x0c}} {
			dir := tmp("f20")
			s := openAt(dir, 100)
			want := map[byte][]byte{}
			for b := byte(1); b <= 2; b++ {
				want[b] = val(0x90+b, 14)
				must(s.Put(key(b), want[b]))
			}
			must(s.Flush())
			s.Close()
			// the crash: the write of the next record stopped after len(stray) bytes
			f, err := os.OpenFile(filepath.Join(dir, "d.0"), os.O_WRONLY|os.O_APPEND, 0)
			must(err)
			f.Write(stray)
			f.Close()
			os.Remove(filepath.Join(dir, "i.buckets"))
			r := openAt(dir, 100)
			for b := byte(3); b <= 9; b++ {
				want[b] = val(0x90+b, 14)
				must(r.Put(key(b), want[b]))
			}
			must(r.Flush())
			want[1] = val(0x55, 14)
			must(r.Put(key(1), want[1])) // garbage in the file the crash interrupted
			must(r.Flush())
			for i := 0; i < 3; i++ {
				if _, err := gc(r, 90); err != nil {
					r.Close()
					os.RemoveAll(dir)
					return false, fmt.Sprintf("torn tail %x: gc cycle %d: %v", stray, i, err)
				}
			}
			must(r.Flush())
			for b := byte(1); b <= 9; b++ {
				if ok, d := expect(r, key(b), want[b], true); !ok {
					r.Close()
					os.RemoveAll(dir)
					return false, fmt.Sprintf("torn tail %x, then 7 more records, an overwrite, flushes and 3 GC cycles: %s", stray, d)
				}
			}
			r.Close()
			os.RemoveAll(dir)
		}
		return true, ""
	}},
	{"F19-torn-freelist-entry", "C03", "crash tore a freelist entry; GC must keep working and later entries must stay aligned", func() (bool, string) {
		dir := tmp("f19")
		defer os.RemoveAll(dir)
		s := openAt(dir, 100)
		lowUseFile(s)
		crash := copyDir(dir)
		defer os.RemoveAll(crash)
		s.Close()
		os.Remove(filepath.Join(crash, "i.buckets"))
		f, err := os.OpenFile(filepath.Join(crash, "i.free"), os.O_WRONLY|os.O_APPEND, 0)
		must(err)
		f.Write([]byte{90, 0, 0, 0, 0}) // 5 bytes of an entry
		f.Close()
		r := openAt(crash, 100)
		defer r.Close()
		must(r.Put(key(9), val('2', 18)))
		must(r.Flush())
		for i := 0; i < 2; i++ {
			if _, err := gc(r, 25); err != nil {
				return false, fmt.Sprintf("gc cycle %d after the crash: %v", i, err)
			}
			must(r.Flush())
		}
		for b, c := range map[byte]byte{1: 'A', 2: 'B', 3: 'C', 9: '2'} {
			if ok, d := expect(r, key(b), val(c, 18), true); !ok {
				return ok, d
			}
		}
		fl, _ := os.ReadFile(filepath.Join(crash, "i.free"))
		if len(fl)%12 != 0 {
			return false, fmt.Sprintf("freelist file has %d bytes: entries are misaligned", len(fl))
		}
		return true, ""
	}},
	{"F15-reader-removes-current-entry", "C06", "Get interleaved with overwrite+flush+GC must not delete the key", func() (bool, string) {
		dir := tmp("f15")
		defer os.RemoveAll(dir)
		s := openAt(dir, 1<<20)
		defer s.Close()
		must(s.Put(key(9), val('1', 18)))
		must(s.Flush())
		fired := false
		verifhook.Set(func(p string) {
			if p == "store.Get.afterIndexGet" && !fired {
				fired = true
				must(s.Put(key(9), val('2', 18)))
				must(s.Flush())
				_, err := gc(s, 85)
				must(err)
			}
		})
		s.Get(key(9))
		verifhook.Set(nil)
		if !fired {
			return false, "yield point store.Get.afterIndexGet not reached"
		}
		return expect(s, key(9), val('2', 18), true)
	}},
	{"F16-relocation-vs-writer", "C06", "Put acknowledged while the collector is between copy and index update", func() (bool, string) {
		dir := tmp("f16")
		defer os.RemoveAll(dir)
		s := openAt(dir, 100)
		defer s.Close()
		lowUseFile(s)
		fired := false
		verifhook.Set(func(p string) {
			if p == "gc.reap.beforeUpdateIndex" && !fired {
				fired = true
				must(s.Put(key(9), val('2', 18)))
			}
		})
		_, err := gc(s, 25)
		verifhook.Set(nil)
		must(err)
		if !fired {
			return false, "yield point gc.reap.beforeUpdateIndex not reached"
		}
		if ok, d := expect(s, key(9), val('2', 18), true); !ok {
			return ok, d
		}
		must(s.Flush())
		return expect(s, key(9), val('2', 18), true)
	}},
	{"F17-close-vs-relocation", "C17", "Close while the background primary collector is between copying a record and updating the index", func() (bool, string) {
		dir := tmp("f17")
		defer os.RemoveAll(dir)
		open := func(gcInterval time.Duration) *store.Store {
			s, err := store.OpenStore(context.Background(), store.MultihashPrimary, filepath.Join(dir, "d"), filepath.Join(dir, "i"), false,
				store.IndexBitSize(8), store.IndexFileSize(1<<20), store.PrimaryFileSize(190), store.GCInterval(gcInterval), store.SyncInterval(time.Hour))
			must(err)
			return s
		}
		parked := make(chan struct{})
		release := make(chan struct{})
		var once, ronce sync.Once
		rel := func() { ronce.Do(func() { close(release) }) }
		verifhook.Set(func(p string) {
			switch p {
			case "gc.reap.beforeUpdateIndex":
				first := false
				once.Do(func() { first = true })
				if first {
					close(parked)
					<-release
				}
			case "store.Close.betweenCloses":
				rel()
			}
		})
		defer verifhook.Set(nil)
		s := open(100 * time.Millisecond)
		// file 0: six superseded records and k9 as its last busy record (> 85% free)
		for b := byte(1); b <= 6; b++ {
			must(s.Put(key(b), val('a'+b, 18)))
		}
		must(s.Put(key(9), val('1', 18)))
		must(s.Flush())
		for b := byte(1); b <= 6; b++ {
			must(s.Put(key(b), val('A'+b, 18)))
		}
		must(s.Flush())
		select {
		case <-parked:
		case <-time.After(10 * time.Second):
			rel()
			s.Close()
			return false, "background collector never reached gc.reap.beforeUpdateIndex"
		}
		// If Close waits for the collector before anything else, let the cycle finish.
		time.AfterFunc(500*time.Millisecond, rel)
		must(s.Close())
		rel()
		verifhook.Set(nil)
		r := open(time.Hour)
		defer r.Close()
		if ok, d := expect(r, key(9), val('1', 18), true); !ok {
			return ok, "after reopen: " + d
		}
		if _, err := gc(r, 25); err != nil {
			return false, "gc: " + err.Error()
		}
		return expect(r, key(9), val('1', 18), true)
	}},
	{"C08-unreadable-neighbour", "C08", "an index Put / Update / Remove made while the primary files cannot be opened either fails and leaves every entry as it was, or succeeds and touches only the addressed key (150 generated key sets sharing prefixes in one bucket)", func() (bool, string) {
		rng := rand.New(rand.NewSource(8))
		refused := 0
		for trial := 0; trial < 150; trial++ {
			bad := func() string {
				dir := tmp("c08f")
				defer os.RemoveAll(dir)
				dataPath, indexPath := filepath.Join(dir, "d"), filepath.Join(dir, "i")
				prim, err := mhprimary.Open(dataPath, nil, filecache.New(0), 0) // no file cache: every read opens the file
				must(err)
				defer prim.Close()
				idx, err := index.Open(context.Background(), indexPath, prim, 8, 1<<20, 0, 0, filecache.New(16))
				must(err)
				defer idx.Close()
				mh := func(d []byte) []byte { m, e := multihash.Encode(d, multihash.SHA2_256); must(e); return m }
				n := 3 + rng.Intn(5)
				seen := map[string]bool{}
				var keys [][]byte
				for len(keys) < n {
					d := []byte{0x51, 0, 0, 0, 0, 0, 0, 0}
					for i := 1; i < 8; i++ {
						d[i] = byte(1 + rng.Intn(2))
					}
					if !seen[string(d)] {
						seen[string(d)] = true
						keys = append(keys, d)
					}
				}
				loc := map[string]types.Block{}
				for _, d := range keys[:n-1] {
					blk, e := prim.Put(mh(d), []byte("v"+string(d)))
					must(e)
					must(idx.Put(d, blk))
					loc[string(d)] = blk
					if rng.Intn(3) == 0 {
						_, e = prim.Flush()
						must(e)
					}
				}
				// two flushes with a record of another bucket in between: the records leave both write pools of the primary
				_, err = prim.Flush()
				must(err)
				other := []byte{0x61, 9, 9, 9, 9, 9, 9, 9}
				ob, err := prim.Put(mh(other), []byte("other"))
				must(err)
				must(idx.Put(other, ob))
				_, err = prim.Flush()
				must(err)
				if rng.Intn(2) == 0 {
					_, err = idx.Flush()
					must(err)
				}
				newKey := keys[n-1]
				newBlk, err := prim.Put(mh(newKey), []byte("new"))
				must(err)
				victim := keys[rng.Intn(n-1)]
				updBlk, err := prim.Put(mh(victim), []byte("upd"))
				must(err)
				op := rng.Intn(4)
				// the fault: no primary file can be opened while the operation runs
				files, _ := filepath.Glob(dataPath + ".[0-9]*")
				for _, f := range files {
					must(os.Rename(f, f+".away"))
				}
				var opErr error
				what := ""
				switch op {
				case 0, 1:
					what = fmt.Sprintf("Put of new key %x", newKey)
					opErr = idx.Put(newKey, newBlk)
					if opErr == nil {
						loc[string(newKey)] = newBlk
					}
				case 2:
					what = fmt.Sprintf("Update of key %x", victim)
					opErr = idx.Update(victim, updBlk)
					if opErr == nil {
						loc[string(victim)] = updBlk
					}
				case 3:
					what = fmt.Sprintf("Remove of key %x", victim)
					var removed bool
					removed, opErr = idx.Remove(victim)
					if opErr == nil && removed {
						delete(loc, string(victim))
					}
				}
				for _, f := range files {
					must(os.Rename(f+".away", f))
				}
				if opErr != nil {
					refused++
				}
				for _, d := range keys {
					got, found, e := idx.Get(d)
					want, present := loc[string(d)]
					if e != nil {
						return fmt.Sprintf("trial %d: after %s (err=%v) Get(%x) fails: %v", trial, what, opErr, d, e)
					}
					if present && (!found || got != want) {
						return fmt.Sprintf("trial %d: after %s (err=%v) key %x resolves to %v (found=%v), its location is %v", trial, what, opErr, d, got, found, want)
					}
					if !present && found {
						// an absent key may resolve to the location of another key, never to one that holds it
						if k, e := prim.GetIndexKey(got); e == nil && bytes.Equal(k, d) {
							return fmt.Sprintf("trial %d: after %s (err=%v) absent key %x resolves to a record holding it", trial, what, opErr, d)
						}
					}
				}
				return ""
			}()
			if bad != "" {
				return false, bad
			}
		}
		return true, fmt.Sprintf("%d of 150 operations were refused because of the fault", refused)
	}},
	{"C13-freelist-exact", "C13", "sequential overwrite/remove/new-key/rejected puts produce exactly the superseded blocks", func() (bool, string) {
		dir := tmp("c13")
		defer os.RemoveAll(dir)
		s := openAt(dir, 1<<20)
		defer s.Close()
		must(s.Put(key(1), val('a', 18)))  // block (0,26)
		must(s.Put(key(2), val('b', 18)))  // (30,26)
		must(s.Put(key(1), val('A', 18)))  // (60,26) frees (0,26)
		must(s.Put(key(1), val('A', 18)))  // identical: nothing
		s.Remove(key(3))                    // absent: nothing
		s.Remove(key(2))                    // frees (30,26)
		must(s.Flush())
		fl, _ := os.ReadFile(filepath.Join(dir, "i.free"))
		var got []uint64
		for p := 0; p+12 <= len(fl); p += 12 {
			got = append(got, binary.LittleEndian.Uint64(fl[p:]))
		}
		sort.Slice(got, func(i, j int) bool { return got[i] < got[j] })
		if len(got) != 2 || got[0] != 0 || got[1] != 30 {
			return false, fmt.Sprintf("freelist offsets %v want [0 30]", got)
		}
		return true, ""
	}},
}

func main() {
	if len(os.Args) < 2 {
		fmt.Println("usage: witness list | run [name...]")
		os.Exit(2)
	}
	if os.Args[1] == "list" {
		for _, sc := range scenarios {
			fmt.Println(sc.name, sc.prop, sc.what)
		}
		return
	}
	want := map[string]bool{}
	for _, n := range os.Args[2:] {
		want[n] = true
	}
	fail := 0
	for _, sc := range scenarios {
		if len(want) > 0 && !want[sc.name] {
			continue
		}
		ok, detail := func() (ok bool, detail string) {
			defer func() {
				if r := recover(); r != nil {
					verifhook.Set(nil)
					ok, detail = false, fmt.Sprint("panic: ", r)
				}
			}()
			return sc.run()
		}()
		st := "PASS"
		if !ok {
			st = "FAIL"
			fail++
		}
		fmt.Printf("%s %s %s %s\n", sc.name, st, sc.prop, detail)
	}
	if fail > 0 {
		os.Exit(1)
	}
}
