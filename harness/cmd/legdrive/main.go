// legdrive: legacy single-file stores and their upgrade (C10).
// For every input line "seed bits newimax newpmax" it
//
//  1. builds a store with the current code and single huge files (random puts, overwrites, removals, flushes),
//
//  2. re-packages it in the legacy formats (version-2 single-file index "i" = [u32 2][2, bits] + records; bare single-file
//     primary "d"; freelist with the pending entries), removing headers and snapshot,
//
//  3. opens it with the new file-size limits - uninterrupted, and interrupted after B context polls for several B
//     followed by a plain open - and compares every key with the expected map, after the upgrade and after a reopen,
//     and runs the independent fsck,
//
//  4. emits the data of the arithmetic correspondence: record sizes of the legacy primary, the limit, the sizes of the
//     real chunk files and, for every live key, (old linear offset, new file, new local offset).
//
//     legdrive <in> <out.coq> <out.jsonl>
package main

import (
	"bufio"
	"bytes"
	"context"
	"encoding/binary"
	"encoding/json"
	"fmt"
	"math/rand"
	"os"
	"os/exec"
	"path/filepath"
	"runtime"
	"sort"
	"strconv"
	"strings"
	"time"

	"verifharness/fsck"

	"github.com/ipld/go-storethehash/store"
)

type budgetCtx struct {
	context.Context
	left *int64
}

func (c budgetCtx) Err() error {
	if *c.left <= 0 {
		return context.Canceled
	}
	*c.left--
	return nil
}

type result struct {
	Case     int    `json:"case"`
	Line     string `json:"line"`
	Phase    string `json:"phase"`
	Bad      string `json:"bad,omitempty"`
	Keys     int    `json:"keys"`
	Recs     int    `json:"legacy_records"`
	Files    int    `json:"chunk_files"`
	Dangling int    `json:"dangling_keys"`
}

func open(ctx context.Context, dir string, bits uint8, imax, pmax uint32) (*store.Store, error) {
	return store.OpenStore(ctx, store.MultihashPrimary, filepath.Join(dir, "d"), filepath.Join(dir, "i"), false,
		store.IndexBitSize(bits), store.IndexFileSize(imax), store.PrimaryFileSize(pmax), store.GCInterval(time.Hour), store.SyncInterval(time.Hour))
}

func copyDir(src string) string {
	dst, _ := os.MkdirTemp("", "leg")
	if err := exec.Command("cp", "-r", src+"/.", dst).Run(); err != nil {
		panic(err)
	}
	return dst
}

func compare(s *store.Store, want map[string][]byte, keys [][]byte) string {
	for _, k := range keys {
		v, ok, err := s.Get(k)
		w, has := want[string(k)]
		switch {
		case err != nil:
			return fmt.Sprintf("Get(%x) errs: %v", k, err)
		case ok != has:
			return fmt.Sprintf("Get(%x) found=%v, expected %v", k, ok, has)
		case has && !bytes.Equal(v, w):
			return fmt.Sprintf("Get(%x) = %x, expected %x", k, v, w)
		}
	}
	return ""
}

func blockOf(s *store.Store, key []byte) (uint64, bool) {
	ik, err := s.Primary().IndexKey(key)
	if err != nil {
		return 0, false
	}
	blk, found, err := s.Index().Get(ik)
	if err != nil || !found {
		return 0, false
	}
	return uint64(blk.Offset), true
}

func nl(xs []int64) string {
	var s []string
	for _, x := range xs {
		s = append(s, strconv.FormatInt(x, 10))
	}
	return "[" + strings.Join(s, ";") + "]"
}

// ---- process-crash enumeration of an upgrade (driven by vlib/crash.py):
//
//	legdrive prep <seed> <bits> <dir> <want.json>            builds a legacy store in <dir>, writes the expected contents
//	legdrive upgrade <dir> <bits> <imax> <pmax>              OpenStore (the conversion) + Close: the child that is killed
//	legdrive verify <dir> <bits> <imax> <pmax> <want.json>   opens what the crash left (completing the conversion), compares every key,
//	                                                         closes, reopens, compares again; prints OK or BAD <what>
func prep(seed int64, bits uint8, dir, wantPath string) {
	rng := rand.New(rand.NewSource(seed))
	s, err := open(context.Background(), dir, bits, 1<<30, 1<<30)
	must(err)
	nk := 5 + rng.Intn(8)
	var keys [][]byte
	for i := 0; i < nk; i++ {
		dl := 4 + rng.Intn(4)
		d := make([]byte, dl)
		for j := range d {
			d[j] = byte(1 + rng.Intn(2))
		}
		d[0] = byte(5 + rng.Intn(3))
		d[dl-1] = byte(10 + i)
		keys = append(keys, append([]byte{0x12, byte(dl)}, d...))
	}
	want := map[string]string{}
	for i, n := 0, 20+rng.Intn(30); i < n; i++ {
		k := keys[rng.Intn(nk)]
		switch r := rng.Intn(10); {
		case r < 7:
			v := make([]byte, 4+rng.Intn(24))
			for j := range v {
				v[j] = byte('a' + rng.Intn(3))
			}
			if s.Put(k, v) == nil {
				want[fmt.Sprintf("%x", k)] = fmt.Sprintf("%x", v)
			}
		case r < 8:
			if rm, _ := s.Remove(k); rm {
				delete(want, fmt.Sprintf("%x", k))
			}
		default:
			s.Flush()
		}
	}
	for _, k := range keys {
		if _, ok := want[fmt.Sprintf("%x", k)]; !ok {
			want[fmt.Sprintf("%x", k)] = "absent"
		}
	}
	s.Flush()
	must(s.Close())
	idx, _ := os.ReadFile(filepath.Join(dir, "i.0"))
	must(os.WriteFile(filepath.Join(dir, "i"), append([]byte{2, 0, 0, 0, 2, bits}, idx...), 0o644))
	must(os.Rename(filepath.Join(dir, "d.0"), filepath.Join(dir, "d")))
	for _, n := range []string{"i.0", "i.info", "d.info", "i.buckets"} {
		os.Remove(filepath.Join(dir, n))
	}
	data, _ := json.Marshal(want)
	must(os.WriteFile(wantPath, data, 0o644))
}

func verify(dir string, bits uint8, imax, pmax uint32, wantPath string) {
	data, err := os.ReadFile(wantPath)
	must(err)
	want := map[string]string{}
	must(json.Unmarshal(data, &want))
	check := func(when string) {
		s, err := open(context.Background(), dir, bits, imax, pmax)
		if err != nil {
			fmt.Printf("BAD %s: open fails: %v\n", when, err)
			os.Exit(1)
		}
		defer s.Close()
		var ks []string
		for k := range want {
			ks = append(ks, k)
		}
		sort.Strings(ks)
		for _, kh := range ks {
			var k []byte
			fmt.Sscanf(kh, "%x", &k)
			v, ok, err := s.Get(k)
			got := "absent"
			if err != nil {
				got = "ERR:" + err.Error()
			} else if ok {
				got = fmt.Sprintf("%x", v)
			}
			if got != want[kh] {
				fmt.Printf("BAD %s: Get(%s) = %s, the legacy store held %s\n", when, kh, got, want[kh])
				os.Exit(1)
			}
		}
	}
	check("opening what the interrupted conversion left")
	check("reopening the converted store")
	fmt.Println("OK")
}

func main() {
	if len(os.Args) > 1 {
		atoi := func(s string) int { n, _ := strconv.Atoi(s); return n }
		switch os.Args[1] {
		case "prep":
			seed, _ := strconv.ParseInt(os.Args[2], 10, 64)
			prep(seed, uint8(atoi(os.Args[3])), os.Args[4], os.Args[5])
			return
		case "upgrade":
			runtime.LockOSThread() // every file-system call of the conversion comes from one thread (the crash enumeration counts per thread)
			s, err := open(context.Background(), os.Args[2], uint8(atoi(os.Args[3])), uint32(atoi(os.Args[4])), uint32(atoi(os.Args[5])))
			must(err)
			must(s.Close())
			return
		case "verify":
			verify(os.Args[2], uint8(atoi(os.Args[3])), uint32(atoi(os.Args[4])), uint32(atoi(os.Args[5])), os.Args[6])
			return
		}
	}
	in, err := os.Open(os.Args[1])
	if err != nil {
		panic(err)
	}
	tf, _ := os.Create(os.Args[3])
	defer tf.Close()
	enc := json.NewEncoder(tf)
	var terms []string
	sc := bufio.NewScanner(in)
	cs := 0
	for sc.Scan() {
		f := strings.Fields(sc.Text())
		if len(f) < 4 {
			continue
		}
		seed, _ := strconv.ParseInt(f[0], 10, 64)
		bits64, _ := strconv.Atoi(f[1])
		imax64, _ := strconv.Atoi(f[2])
		pmax64, _ := strconv.Atoi(f[3])
		bits, nimax, npmax := uint8(bits64), uint32(imax64), uint32(pmax64)
		rng := rand.New(rand.NewSource(seed))
		res := result{Case: cs, Line: sc.Text()}
		term := func() (out string) {
			defer func() {
				if r := recover(); r != nil {
					if res.Phase == "" {
						res.Phase = "upgrade"
					}
					res.Phase, res.Bad, out = "panic during "+res.Phase, fmt.Sprint(r), ""
				}
			}()
			dir, _ := os.MkdirTemp("", "leg")
			if os.Getenv("LEG_KEEP") != "" {
				fmt.Fprintln(os.Stderr, "kept:", dir)
			} else {
				defer os.RemoveAll(dir)
			}
			s, err := open(context.Background(), dir, bits, 1<<30, 1<<30)
			if err != nil {
				panic(err)
			}
			// keys sharing bucket bits and prefixes
			nk := 3 + rng.Intn(10)
			var keys [][]byte
			for i := 0; i < nk; i++ {
				dl := 4 + rng.Intn(4)
				d := make([]byte, dl)
				for j := range d {
					d[j] = byte(1 + rng.Intn(2))
				}
				d[0] = byte(5 + rng.Intn(2))
				d[dl-1] = byte(10 + i)
				keys = append(keys, append([]byte{0x12, byte(dl)}, d...))
			}
			want := map[string][]byte{}
			nops := 5 + rng.Intn(40)
			for i := 0; i < nops; i++ {
				k := keys[rng.Intn(nk)]
				switch r := rng.Intn(10); {
				case r < 6:
					v := make([]byte, rng.Intn(24))
					for j := range v {
						v[j] = byte('a' + rng.Intn(3))
					}
					if s.Put(k, v) == nil {
						want[string(k)] = v
					}
				case r < 8:
					if rm, _ := s.Remove(k); rm {
						delete(want, string(k))
					}
				default:
					s.Flush()
				}
			}
			s.Flush()
			oldOff := map[string]uint64{}
			for _, k := range keys {
				if o, ok := blockOf(s, k); ok {
					oldOff[string(k)] = o
				}
			}
			if err := s.Close(); err != nil {
				panic(err)
			}
			// ---- re-package in the legacy formats
			idx, _ := os.ReadFile(filepath.Join(dir, "i.0"))
			hdr := []byte{2, 0, 0, 0, 2, bits}
			must(os.WriteFile(filepath.Join(dir, "i"), append(hdr, idx...), 0o644))
			must(os.Rename(filepath.Join(dir, "d.0"), filepath.Join(dir, "d")))
			for _, n := range []string{"i.0", "i.info", "d.info", "i.buckets"} {
				os.Remove(filepath.Join(dir, n))
			}
			// a third of the cases: the legacy primary lost its last records (cut at a record boundary); index entries that name them are
			// dangling and must be dropped by the upgrade, never mis-pointed - also when several of them share a bucket
			if rng.Intn(3) == 0 {
				full, _ := os.ReadFile(filepath.Join(dir, "d"))
				var starts []int
				for p := 0; p+4 <= len(full); {
					starts = append(starts, p)
					p += 4 + int(binary.LittleEndian.Uint32(full[p:])&0x7fffffff)
				}
				if len(starts) >= 2 {
					cut := starts[len(starts)-1-rng.Intn(min(4, len(starts)-1))]
					must(os.Truncate(filepath.Join(dir, "d"), int64(cut)))
					// (freelist entries naming the lost records go with them: the clause under test is about index entries)
					if fl, e := os.ReadFile(filepath.Join(dir, "i.free")); e == nil {
						var keep []byte
						for p := 0; p+12 <= len(fl); p += 12 {
							if binary.LittleEndian.Uint64(fl[p:]) < uint64(cut) {
								keep = append(keep, fl[p:p+12]...)
							}
						}
						must(os.WriteFile(filepath.Join(dir, "i.free"), keep, 0o644))
					}
					for _, k := range keys {
						if o, ok := oldOff[string(k)]; ok && o >= uint64(cut) {
							delete(want, string(k))
							delete(oldOff, string(k))
							res.Dangling++
						}
					}
				}
			}
			prim, _ := os.ReadFile(filepath.Join(dir, "d"))
			var recSizes []int64
			for p := 0; p+4 <= len(prim); {
				sz := int(binary.LittleEndian.Uint32(prim[p:]))
				recSizes = append(recSizes, int64(sz))
				p += 4 + sz
			}
			res.Keys, res.Recs = len(want), len(recSizes)
			// ---- interrupted upgrades, each followed by a plain open
			for _, b := range []int64{0, 1, 2, 3, 5, 8, 13} {
				res.Phase = fmt.Sprintf("an upgrade interrupted at context poll %d or its resumption", b)
				c := copyDir(dir)
				n := b
				if s1, err := open(budgetCtx{context.Background(), &n}, c, bits, nimax, npmax); err == nil {
					s1.Close()
				}
				s2, err := open(context.Background(), c, bits, nimax, npmax)
				if err != nil {
					os.RemoveAll(c)
					res.Phase, res.Bad = fmt.Sprintf("open after an upgrade interrupted at context poll %d", b), err.Error()
					return ""
				}
				bad := compare(s2, want, keys)
				s2.Close()
				os.RemoveAll(c)
				if bad != "" {
					res.Phase, res.Bad = fmt.Sprintf("after an upgrade interrupted at context poll %d and resumed", b), bad
					return ""
				}
			}
			// ---- the uninterrupted upgrade
			res.Phase = "the uninterrupted upgrade"
			u, err := open(context.Background(), dir, bits, nimax, npmax)
			if err != nil {
				res.Phase, res.Bad = "upgrade", err.Error()
				return ""
			}
			if bad := compare(u, want, keys); bad != "" {
				res.Phase, res.Bad = "after the upgrade", bad
				return ""
			}
			var remaps []string
			for _, k := range keys {
				if _, ok := want[string(k)]; !ok {
					continue
				}
				n, ok := blockOf(u, k)
				if !ok {
					res.Phase, res.Bad = "after the upgrade", fmt.Sprintf("index does not resolve %x", k)
					return ""
				}
				fn := uint64(0)
				if n != 0 {
					fn = n / uint64(npmax)
				}
				remaps = append(remaps, fmt.Sprintf("(%d, (%d, %d))", oldOff[string(k)], fn, n-fn*uint64(npmax)))
			}
			tbl := u.Index().VerifBuckets()
			t := make([]uint64, len(tbl))
			for i, p := range tbl {
				t[i] = uint64(p)
			}
			u.Flush()
			chunks, _ := filepath.Glob(filepath.Join(dir, "d.[0-9]*"))
			// (a legacy primary that fits one file is not remapped: dangling entries stay what they were - pointing behind the data, resolved
			// to "not found" by the key comparison of every lookup - so the strict reader is not applied to that corner)
			if bad := fsck.Check(dir, fsck.Config{Bits: bits, Imax: nimax, Pmax: npmax}, t); bad != "" && !(res.Dangling > 0 && len(chunks) <= 1) {
				res.Phase, res.Bad = "fsck after the upgrade", bad
				return ""
			}
			u.Close()
			var nums []int
			ents, _ := os.ReadDir(dir)
			sizes := map[int]int64{}
			for _, e := range ents {
				if strings.HasPrefix(e.Name(), "d.") {
					if n, err := strconv.Atoi(strings.TrimPrefix(e.Name(), "d.")); err == nil {
						fi, _ := e.Info()
						nums = append(nums, n)
						sizes[n] = fi.Size()
					}
				}
			}
			sort.Ints(nums)
			var fs []int64
			for _, n := range nums {
				fs = append(fs, sizes[n])
			}
			res.Files = len(fs)
			u2, err := open(context.Background(), dir, bits, nimax, npmax)
			if err != nil {
				res.Phase, res.Bad = "reopen after the upgrade", err.Error()
				return ""
			}
			bad := compare(u2, want, keys)
			u2.Close()
			if bad != "" {
				res.Phase, res.Bad = "after a reopen following the upgrade", bad
				return ""
			}
			res.Phase = "ok"
			return fmt.Sprintf("  (%d, %s, %s, [%s])", npmax, nl(recSizes), nl(fs), strings.Join(remaps, "; "))
		}()
		enc.Encode(res)
		terms = append(terms, fmt.Sprintf("(*CASE %d*)\n%s", cs, term))
		cs++
	}
	os.WriteFile(os.Args[2], []byte(strings.Join(terms, "\n")+"\n"), 0o644)
}

func must(err error) {
	if err != nil {
		panic(err)
	}
}
