// crashdrive: process-crash enumeration on the real store with the real kernel.
//
//	crashdrive child   <hist> <dir> <acklog>   run the history in <dir>; after every completed operation append its
//	                                           index to <acklog>. The orchestrator runs this under
//	                                           `strace -e inject=...:signal=SIGKILL:when=K`, so the process dies on
//	                                           entering its K-th file-system call: <dir> is then exactly what a
//	                                           process crash at that instant leaves.
//	crashdrive recover <hist> <dir> <acklog>   open <dir> with the real code and decide C03 on it: the open succeeds,
//	                                           every key reads the value of the last completed Flush/Close or one
//	                                           acknowledged (or in progress) since, never an error; the store keeps
//	                                           behaving like a map through GC cycles, a flush, a second un-clean restart
//	                                           (rescan) and a clean reopen. Prints "OK ..." or "BAD <what>"; exit 0/1.
package main

import (
	"bytes"
	"context"
	"fmt"
	"io"
	"os"
	"os/exec"
	"path/filepath"
	"runtime"
	"strconv"
	"strings"
	"time"

	"verifharness/fsck"
	"verifharness/hist"

	"github.com/ipld/go-storethehash/store"
	mhprimary "github.com/ipld/go-storethehash/store/primary/multihash"
)

func open(h *hist.History, dir string, bits uint8) (*store.Store, error) {
	return store.OpenStore(context.Background(), store.MultihashPrimary, filepath.Join(dir, "d"), filepath.Join(dir, "i"), h.Cfg.Imm,
		store.IndexBitSize(bits), store.IndexFileSize(h.Cfg.Imax), store.PrimaryFileSize(h.Cfg.Pmax),
		store.GCInterval(time.Hour), store.SyncInterval(time.Hour))
}

func child(h *hist.History, dir, acklog string) {
	runtime.LockOSThread()
	ack, err := os.OpenFile(acklog, os.O_WRONLY|os.O_CREATE|os.O_APPEND, 0o644)
	if err != nil {
		panic(err)
	}
	bits := h.Cfg.Bits
	s, err := open(h, dir, bits)
	if err != nil {
		panic(err)
	}
	ack.WriteString("open\n")
	for i, o := range h.Ops {
		switch o.Kind {
		case "put":
			s.Put(o.Key, o.Val)
		case "get":
			s.Get(o.Key)
		case "has":
			s.Has(o.Key)
		case "size":
			s.GetSize(o.Key)
		case "remove":
			s.Remove(o.Key)
		case "flush":
			if err := s.Flush(); err != nil {
				panic(err)
			}
		case "igc":
			s.Index().VerifGC(context.Background(), o.N != 0)
		case "pgc":
			s.Primary().(*mhprimary.MultihashPrimary).GC(context.Background(), o.N)
		case "reopen":
			if err := s.Close(); err != nil {
				panic(err)
			}
			ack.WriteString(strconv.Itoa(i) + " closed\n")
			if o.N != 0 {
				os.Remove(filepath.Join(dir, "i.buckets"))
			}
			if s, err = open(h, dir, bits); err != nil {
				panic(err)
			}
		case "rebits":
			// Close, then OpenStore with another index bit size: the index is re-bucketed (C09)
			if err := s.Close(); err != nil {
				panic(err)
			}
			ack.WriteString(strconv.Itoa(i) + " closed\n")
			bits = uint8(o.N)
			if s, err = open(h, dir, bits); err != nil {
				panic(err)
			}
		case "close":
			if err := s.Close(); err != nil {
				panic(err)
			}
			ack.WriteString(strconv.Itoa(i) + "\n")
			return
		default:
			panic("crashdrive: unsupported op " + o.Kind)
		}
		ack.WriteString(strconv.Itoa(i) + "\n")
	}
	s.Close()
	ack.WriteString("end\n")
}

type val struct {
	present bool
	v       string
}

func dg(k []byte) string { return string(k[2:]) }

// allowed computes, for every key, the values a recovered store may return.
func allowed(h *hist.History, acked int, closedAt int) (map[string]map[val]bool, [][]byte) {
	m := map[string]val{}
	durable := map[string]val{}
	since := map[string]map[val]bool{}
	var keys [][]byte
	seen := map[string]bool{}
	note := func(k string) {
		if since[k] == nil {
			since[k] = map[val]bool{}
		}
		since[k][m[k]] = true
	}
	for i, o := range h.Ops {
		if o.Key != nil && !seen[dg(o.Key)] {
			seen[dg(o.Key)] = true
			keys = append(keys, o.Key)
		}
		if i > acked { // op `acked` is the one possibly in progress; later ones never started
			continue
		}
		inProgress := i == acked
		switch o.Kind {
		case "put":
			k := dg(o.Key)
			if m[k].present && h.Cfg.Imm {
				break
			}
			note(k)
			if !(m[k].present && m[k].v == string(o.Val)) {
				m[k] = val{true, string(o.Val)}
			}
			note(k)
		case "remove":
			k := dg(o.Key)
			note(k)
			delete(m, k)
			note(k)
		case "flush", "reopen", "close", "rebits":
			if !inProgress || (o.Kind != "flush" && closedAt == i) {
				durable = map[string]val{}
				for k, v := range m {
					durable[k] = v
				}
				since = map[string]map[val]bool{}
			}
		}
	}
	out := map[string]map[val]bool{}
	for _, k := range keys {
		s := map[val]bool{durable[dg(k)]: true, m[dg(k)]: true}
		for v := range since[dg(k)] {
			s[v] = true
		}
		out[dg(k)] = s
	}
	return out, keys
}

func readAck(p string) (acked int, closedAt int, opened bool) {
	data, _ := os.ReadFile(p)
	acked, closedAt = 0, -1
	last := -1
	for _, l := range strings.Split(string(data), "\n") {
		f := strings.Fields(l)
		if len(f) == 0 {
			continue
		}
		if f[0] == "open" {
			opened = true
			continue
		}
		if f[0] == "end" {
			continue
		}
		n, err := strconv.Atoi(f[0])
		if err != nil {
			continue
		}
		if len(f) > 1 && f[1] == "closed" {
			closedAt = n
			continue
		}
		last = n
	}
	return last + 1, closedAt, opened
}

func bad(format string, a ...interface{}) {
	fmt.Printf("BAD "+format+"\n", a...)
	os.Exit(1)
}

func readAll(s *store.Store, keys [][]byte, what string) map[string]val {
	out := map[string]val{}
	for _, k := range keys {
		v, ok, err := s.Get(k)
		if err != nil {
			bad("%s: Get(%x) errs: %v", what, k, err)
		}
		out[dg(k)] = val{ok, string(v)}
		if !ok {
			out[dg(k)] = val{}
		}
	}
	return out
}

func same(a, b map[string]val, keys [][]byte, what string) {
	for _, k := range keys {
		if a[dg(k)] != b[dg(k)] {
			bad("%s: Get(%x) changed from %v %q to %v %q", what, k, a[dg(k)].present, a[dg(k)].v, b[dg(k)].present, b[dg(k)].v)
		}
	}
}

// iterCheck: whole-store iteration yields every present key exactly once with its value and nothing else.
func iterCheck(s *store.Store, want map[string]val, what string) {
	it := s.NewIterator()
	seen := map[string]bool{}
	for {
		k, v, err := it.Next()
		if err == io.EOF {
			break
		}
		if err != nil {
			bad("%s: %v", what, err)
		}
		d := dg(k)
		if seen[d] {
			bad("%s: key %x yielded twice", what, k)
		}
		seen[d] = true
		if w, ok := want[d]; ok && (!w.present || w.v != string(v)) {
			bad("%s: key %x yielded with %q, Get says present=%v %q", what, k, v, w.present, w.v)
		}
	}
	for d, w := range want {
		if w.present && !seen[d] {
			bad("%s: a present key (digest %x) was not yielded", what, d)
		}
	}
}

func copyDir(src string) string {
	dst, _ := os.MkdirTemp("", "crash2")
	if err := exec.Command("cp", "-r", src+"/.", dst).Run(); err != nil {
		panic(err)
	}
	return dst
}

func recoverCheck(h *hist.History, dir, acklog string) {
	acked, closedAt, opened := readAck(acklog)
	al, keys := allowed(h, acked, closedAt)
	// what the crash left of the last primary file (Open cuts an incomplete record off its end)
	lastPrimary, lastBytes := "", []byte(nil)
	for n := 0; ; n++ {
		p := filepath.Join(dir, fmt.Sprintf("d.%d", n))
		if _, e := os.Stat(p); e != nil {
			if lastPrimary != "" || n > 4096 {
				break
			}
			continue
		}
		lastPrimary = p
	}
	if lastPrimary != "" {
		lastBytes, _ = os.ReadFile(lastPrimary)
	}
	// the bit size the user asks for: that of the last re-bucketing that was started (an interrupted one included)
	bits := h.Cfg.Bits
	rebucketing := false
	for i, o := range h.Ops {
		if o.Kind == "rebits" && i <= acked {
			bits = uint8(o.N)
			rebucketing = i == acked && closedAt == i
		}
	}
	s, err := open(h, dir, bits)
	if err != nil && rebucketing {
		// C09 only demands that an interrupted re-bucketing never leaves a store that OPENS with fewer keys; a refused open is
		// tolerated here when the original bit size still opens the store with everything in it
		prev := h.Cfg.Bits
		for i, o := range h.Ops {
			if o.Kind == "rebits" && i < acked {
				prev = uint8(o.N)
			}
		}
		s0, err0 := open(h, dir, prev)
		if err0 != nil {
			bad("open after an interrupted re-bucketing fails with the new bit size (%v) and with the old one (%v)", err, err0)
		}
		got0 := readAll(s0, keys, "after an interrupted re-bucketing, old bit size")
		for _, k := range keys {
			if !al[dg(k)][got0[dg(k)]] {
				bad("after an interrupted re-bucketing (old bit size): Get(%x) = %v %q", k, got0[dg(k)].present, got0[dg(k)].v)
			}
		}
		s0.Close()
		fmt.Printf("OK acked=%d keys=%d (open with the new bit size refused: %v)\n", acked, len(keys), err)
		return
	}
	if err == nil && lastPrimary != "" && len(lastBytes) <= 1024 {
		if fi, e := os.Stat(lastPrimary); e == nil {
			fmt.Printf("TRIM %x %d\n", lastBytes, fi.Size())
		}
	}
	if err != nil {
		if !opened {
			// died inside the very first OpenStore of an empty directory: nothing was ever stored; a failing open
			// here still violates "the next open succeeds"
			bad("open after a crash inside the first OpenStore fails: %v", err)
		}
		bad("open after the crash fails: %v", err)
	}
	got := readAll(s, keys, "after recovery")
	for _, k := range keys {
		if !al[dg(k)][got[dg(k)]] {
			var opts []string
			for v := range al[dg(k)] {
				opts = append(opts, fmt.Sprintf("%v:%q", v.present, v.v))
			}
			bad("after recovery (ops acknowledged: %d): Get(%x) = %v %q, allowed %v", acked, k, got[dg(k)].present, got[dg(k)].v, opts)
		}
	}
	// C07: the files the recovery left agree with each other and with the rebuilt bucket table
	fsckNow := func(st *store.Store, d, when string) {
		tbl := st.Index().VerifBuckets()
		t := make([]uint64, len(tbl))
		for i, p := range tbl {
			t[i] = uint64(p)
		}
		if msg := fsck.Check(d, fsck.Config{Bits: bits, Imax: h.Cfg.Imax, Pmax: h.Cfg.Pmax}, t); msg != "" {
			bad("fsck %s: %s", when, msg)
		}
	}
	// second un-clean restart: more writes and a flush, then the process dies again without Close
	extra := []byte{0x12, 6, 7, 7, 7, 0xee, 0xee, 0xee}
	if err := s.Put(extra, []byte("second-restart")); err != nil && !h.Cfg.Imm {
		bad("Put after recovery: %v", err)
	}
	if err := s.Flush(); err != nil {
		bad("Flush after recovery: %v", err)
	}
	// the recovered store is used on: further records in other buckets (enough to roll small primary files over, so that the file the
	// crash interrupted becomes a non-current file the collector visits), overwrites / removals that leave garbage behind, a flush
	for i := 0; i < 10; i++ {
		k := []byte{0x12, 6, byte(0x20 + i), 7, 7, 0xe0, byte(i), 0xee}
		v := bytes.Repeat([]byte{byte(0x81 + i)}, 14)
		if err := s.Put(k, v); err != nil {
			bad("Put after recovery: %v", err)
		}
		keys = append(keys, k)
		got[dg(k)] = val{true, string(v)}
	}
	if err := s.Flush(); err != nil {
		bad("Flush after recovery: %v", err)
	}
	for i := 0; i < 2; i++ {
		k := keys[len(keys)-10+i]
		if h.Cfg.Imm {
			if _, err := s.Remove(k); err != nil {
				bad("Remove after recovery: %v", err)
			}
			got[dg(k)] = val{}
		} else {
			v := bytes.Repeat([]byte{byte(0x71 + i)}, 9)
			if err := s.Put(k, v); err != nil {
				bad("Put after recovery: %v", err)
			}
			got[dg(k)] = val{true, string(v)}
		}
	}
	if err := s.Flush(); err != nil {
		bad("Flush after recovery: %v", err)
	}
	same(got, readAll(s, keys, "after further writes on the recovered store"), keys, "further writes on the recovered store")
	img := copyDir(dir)
	defer os.RemoveAll(img)
	// the recovered store keeps behaving like a map through GC cycles
	mp := s.Primary().(*mhprimary.MultihashPrimary)
	for c := 0; c < 2; c++ {
		if _, err := mp.GC(context.Background(), int64(50+40*c)); err != nil {
			bad("primary GC after recovery: %v", err)
		}
		if _, _, err := s.Index().VerifGC(context.Background(), c == 0); err != nil && !strings.Contains(err.Error(), "cannot stat index file") {
			bad("index GC after recovery: %v", err)
		}
		same(got, readAll(s, keys, "after GC on the recovered store"), keys, "GC cycle on the recovered store")
	}
	if err := s.Flush(); err != nil {
		bad("Flush after GC: %v", err)
	}
	same(got, readAll(s, keys, "after flush"), keys, "flush on the recovered store")
	iterCheck(s, got, "iteration over the recovered store")
	fsckNow(s, dir, "on the recovered store after further writes, two GC cycles and a flush")
	if err := s.Close(); err != nil {
		bad("Close of the recovered store: %v", err)
	}
	os.Remove(filepath.Join(dir, "i.buckets"))
	s2, err := open(h, dir, bits)
	if err != nil {
		bad("reopen of the recovered store: %v", err)
	}
	same(got, readAll(s2, keys, "after reopen"), keys, "reopen (rescan) of the recovered store")
	s2.Close()
	// the image taken after the post-recovery flush, opened without a clean Close
	os.Remove(filepath.Join(img, "i.buckets"))
	s3, err := open(h, img, bits)
	if err != nil {
		bad("second restart: open fails: %v", err)
	}
	same(got, readAll(s3, keys, "after the second restart"), keys, "second un-clean restart")
	delete(got, "") // (no-op; keeps the map type obvious)
	fsckNow(s3, img, "after the second restart")
	if v, ok, err := s3.Get(extra); err != nil || !ok || !bytes.Equal(v, []byte("second-restart")) {
		bad("second restart: a key flushed after the first recovery reads found=%v err=%v val=%q", ok, err, v)
	}
	s3.Close()
	fmt.Printf("OK acked=%d keys=%d\n", acked, len(keys))
}

func main() {
	if len(os.Args) != 5 {
		fmt.Println("usage: crashdrive child|recover <hist> <dir> <acklog>")
		os.Exit(2)
	}
	h, err := hist.Parse(os.Args[2])
	if err != nil {
		fmt.Println(err)
		os.Exit(2)
	}
	switch os.Args[1] {
	case "child":
		child(h, os.Args[3], os.Args[4])
	case "recover":
		defer func() {
			if r := recover(); r != nil {
				fmt.Printf("BAD panic during recovery: %v\n", r)
				os.Exit(1)
			}
		}()
		recoverCheck(h, os.Args[3], os.Args[4])
	}
}
