// sthdrive executes history files (package hist) on the store built from
// /repo's current tree and records everything the correspondence check and the
// property oracles need:
//
//   - a Coq term per history (constructor mkcase5 of STH.Replay) holding every
//     operation with its observed result, the oracle values the implementation
//     chose (order in which Index.Flush wrote the buckets), and at checkpoints
//     the live bucket table and the byte image of every index, primary and
//     freelist file (payload of dead records masked);
//   - a JSON line per operation for the Python-side property oracles.
//
//	sthdrive -coq out.v.part -trace out.jsonl hist1 [hist2 ...]
package main

import (
	"context"
	"encoding/binary"
	"encoding/hex"
	"encoding/json"
	"errors"
	"flag"
	"fmt"
	"io"
	"os"
	"os/exec"
	"path/filepath"
	"sort"
	"strconv"
	"strings"
	"time"

	"verifharness/fsck"
	"verifharness/hist"

	"github.com/ipld/go-storethehash/store"
	mhprimary "github.com/ipld/go-storethehash/store/primary/multihash"
	"github.com/ipld/go-storethehash/store/types"
	"github.com/ipld/go-storethehash/store/verifhook"
)

func coqBytes(b []byte) string {
	var sb strings.Builder
	sb.WriteString("[")
	for i, x := range b {
		if i > 0 {
			sb.WriteString(";")
		}
		sb.WriteString(strconv.Itoa(int(x)))
	}
	sb.WriteString("]")
	return sb.String()
}

func errClass(err error) string {
	if err == nil {
		return "ROk"
	}
	if err == types.ErrKeyExists {
		return "RExists"
	}
	return "RErr"
}

func fileSizes(dir, base string) map[int]int64 {
	m := map[int]int64{}
	ents, _ := os.ReadDir(dir)
	for _, e := range ents {
		if strings.HasPrefix(e.Name(), base+".") {
			if n, err := strconv.Atoi(strings.TrimPrefix(e.Name(), base+".")); err == nil {
				fi, _ := e.Info()
				m[n] = fi.Size()
			}
		}
	}
	return m
}

type appRec struct {
	bucket uint32
	file   int
	end    int64
}

// appendedRecs reads back the index records appended since before: their
// buckets, in file order, are the order in which Index.Flush ranged over its map.
func appendedRecs(dir string, before map[int]int64) []appRec {
	after := fileSizes(dir, "i")
	var nums []int
	for n := range after {
		nums = append(nums, n)
	}
	sort.Ints(nums)
	var out []appRec
	for _, n := range nums {
		start := before[n]
		if after[n] <= start {
			continue
		}
		data, _ := os.ReadFile(filepath.Join(dir, fmt.Sprintf("i.%d", n)))
		pos := start
		for pos+8 <= int64(len(data)) {
			sz := binary.LittleEndian.Uint32(data[pos:]) &^ (1 << 31)
			b := binary.LittleEndian.Uint32(data[pos+4:])
			pos += 4 + int64(sz)
			out = append(out, appRec{b, n, pos})
		}
	}
	return out
}

func buckets(recs []appRec) []uint32 {
	var o []uint32
	for _, r := range recs {
		o = append(o, r.bucket)
	}
	return o
}

func nlist(xs []uint32) string {
	var s []string
	for _, x := range xs {
		s = append(s, strconv.Itoa(int(x)))
	}
	return "[" + strings.Join(s, ";") + "]"
}

// maskDead zeroes the payload of dead slots (the code leaves scratch bytes there).
func maskDead(data []byte) []byte {
	out := append([]byte(nil), data...)
	pos := 0
	for pos+4 <= len(out) {
		raw := binary.LittleEndian.Uint32(out[pos:])
		sz := int(raw &^ (1 << 31))
		if raw&(1<<31) != 0 {
			for i := pos + 4; i < pos+4+sz && i < len(out); i++ {
				out[i] = 0
			}
		}
		pos += 4 + sz
	}
	return out
}

// crashImage copies dir as it would look had the process died after the first
// keep index records of the flush that produced recs were written (primary
// complete, freelist not yet written, no bucket snapshot).
func crashImage(dir string, before map[int]int64, freeBefore int64, recs []appRec, keep int) string {
	crash, _ := os.MkdirTemp("", "crash")
	if err := exec.Command("cp", "-r", dir+"/.", crash).Run(); err != nil {
		panic(err)
	}
	end := map[int]int64{}
	for n, sz := range before {
		end[n] = sz
	}
	for _, r := range recs[:keep] {
		end[r.file] = r.end
	}
	for n := range fileSizes(crash, "i") {
		name := filepath.Join(crash, fmt.Sprintf("i.%d", n))
		if e, ok := end[n]; ok {
			os.Truncate(name, e)
		} else {
			os.Remove(name)
		}
	}
	os.Truncate(filepath.Join(crash, "i.free"), freeBefore)
	os.Remove(filepath.Join(crash, "i.buckets"))
	return crash
}

type rec struct {
	Hist  string      `json:"hist"`
	I     int         `json:"i"`
	Op    string      `json:"op"`
	Key   string      `json:"key,omitempty"`
	Val   *string     `json:"val,omitempty"`
	N     int64       `json:"n,omitempty"`
	Res   string      `json:"res"`
	Found *bool       `json:"found,omitempty"`
	Out   *string     `json:"out,omitempty"`
	Size  *int64      `json:"size,omitempty"`
	Extra interface{} `json:"extra,omitempty"`
}

type runner struct {
	h    *hist.History
	dir  string
	s    *store.Store
	bits uint8
	ops  []string
	enc  *json.Encoder
	keys [][]byte

	resumeMaybe bool               // a time-limited index GC cycle ran since the store was opened: a resume cursor may be pending
	hook        func(point string) // the interference installed by an "at" line, if any
}

func (r *runner) open(dir string, bits uint8) (*store.Store, error) {
	return store.OpenStore(context.Background(), store.MultihashPrimary, filepath.Join(dir, "d"), filepath.Join(dir, "i"), r.h.Cfg.Imm,
		store.IndexBitSize(bits), store.IndexFileSize(r.h.Cfg.Imax), store.PrimaryFileSize(r.h.Cfg.Pmax),
		store.GCInterval(time.Hour), store.SyncInterval(time.Hour))
}

func (r *runner) observe() {
	tbl := r.s.Index().VerifBuckets()
	var t []string
	for b, p := range tbl {
		if p != 0 {
			t = append(t, fmt.Sprintf("(%d,%d)", b, p))
		}
	}
	r.ops = append(r.ops, fmt.Sprintf("(YX XObserve, XTbl [%s])", strings.Join(t, ";")))
	img := func(base string) string {
		sz := fileSizes(r.dir, base)
		var ns []int
		for n := range sz {
			ns = append(ns, n)
		}
		sort.Ints(ns)
		var parts []string
		for _, n := range ns {
			data, _ := os.ReadFile(filepath.Join(r.dir, fmt.Sprintf("%s.%d", base, n)))
			parts = append(parts, fmt.Sprintf("(%d, %s)", n, coqBytes(maskDead(data))))
		}
		return "[" + strings.Join(parts, ";") + "]"
	}
	fr, _ := os.ReadFile(filepath.Join(r.dir, "i.free"))
	r.ops = append(r.ops, fmt.Sprintf("(YX XImage, XImg %s %s %s)", img("i"), img("d"), coqBytes(fr)))
}

// blockOf returns the primary location the index currently names for key ("" if none / not its own).
func (r *runner) blockOf(key []byte) string {
	ik, err := r.s.Primary().IndexKey(key)
	if err != nil {
		return ""
	}
	blk, found, err := r.s.Index().Get(ik)
	if err != nil || !found {
		return ""
	}
	k, _, err := r.s.Primary().Get(blk)
	if err != nil || k == nil {
		return ""
	}
	ik2, err := r.s.Primary().IndexKey(k)
	if err != nil || string(ik2) != string(ik) {
		return ""
	}
	return fmt.Sprintf("%d:%d", blk.Offset, blk.Size)
}

type dirState struct {
	Files   map[string]int64 `json:"files"`
	Storage int64            `json:"storage"`
	// Current: primary locations named by the index for the keys of the history
	Current []string `json:"current"`
	// FreeFile / FreeGC: entries of the freelist file and of the .gc work file
	FreeFile []string `json:"free_file"`
	FreeGC   []string `json:"free_gc"`
	// Dead / Busy: records of each primary file by their start
	Busy map[string][]string `json:"busy"`
	Dead map[string][]string `json:"dead"`
	// index files referenced by the bucket table
	IdxRef []int `json:"idx_ref"`
	PFirst, IFirst int
}

func readFree(p string) []string {
	fl, _ := os.ReadFile(p)
	out := []string{}
	for q := 0; q+12 <= len(fl); q += 12 {
		out = append(out, fmt.Sprintf("%d:%d", binary.LittleEndian.Uint64(fl[q:]), binary.LittleEndian.Uint32(fl[q+8:])))
	}
	return out
}

func (r *runner) dirState() dirState {
	d := dirState{Files: map[string]int64{}, Busy: map[string][]string{}, Dead: map[string][]string{}, Current: []string{}, IdxRef: []int{}}
	ents, _ := os.ReadDir(r.dir)
	for _, e := range ents {
		fi, err := e.Info()
		if err == nil {
			d.Files[e.Name()] = fi.Size()
		}
	}
	d.Storage, _ = r.s.StorageSize()
	for _, k := range r.keys {
		if b := r.blockOf(k); b != "" {
			d.Current = append(d.Current, b)
		}
	}
	d.FreeFile = readFree(filepath.Join(r.dir, "i.free"))
	d.FreeGC = readFree(filepath.Join(r.dir, "i.free.gc"))
	for n := range fileSizes(r.dir, "d") {
		data, _ := os.ReadFile(filepath.Join(r.dir, fmt.Sprintf("d.%d", n)))
		name := strconv.Itoa(n)
		d.Busy[name], d.Dead[name] = []string{}, []string{}
		pos := 0
		for pos+4 <= len(data) {
			raw := binary.LittleEndian.Uint32(data[pos:])
			sz := int(raw &^ (1 << 31))
			ent := fmt.Sprintf("%d:%d", int64(n)*int64(r.h.Cfg.Pmax)+int64(pos), sz)
			if raw&(1<<31) != 0 {
				d.Dead[name] = append(d.Dead[name], ent)
			} else {
				d.Busy[name] = append(d.Busy[name], ent)
			}
			pos += 4 + sz
		}
	}
	seen := map[int]bool{}
	for _, p := range r.s.Index().VerifBuckets() {
		if p != 0 {
			f := int((int64(p) - 4) / int64(r.h.Cfg.Imax))
			if !seen[f] {
				seen[f] = true
				d.IdxRef = append(d.IdxRef, f)
			}
		}
	}
	sort.Ints(d.IdxRef)
	return d
}

// otherSize is a legal file-size limit different from x.
func otherSize(x uint32) uint32 {
	if x >= 1<<30 {
		return x - 1
	}
	return x + 1
}

// budgetCtx is a context whose Err() turns into DeadlineExceeded after n successful polls: a deterministic time limit.
type budgetCtx struct {
	context.Context
	left *int64
}

func (c budgetCtx) Err() error {
	if *c.left <= 0 {
		return context.DeadlineExceeded
	}
	*c.left--
	return nil
}

func withBudget(n int64) context.Context { return budgetCtx{context.Background(), &n} }

// armedCtx is a budgetCtx that starts to count only once *armed is set (the production primary collector starts its
// timer after the freelist has been applied).
type armedCtx struct {
	context.Context
	left  *int64
	armed *bool
}

func (c armedCtx) Err() error {
	if !*c.armed {
		return nil
	}
	if *c.left <= 0 {
		return context.DeadlineExceeded
	}
	*c.left--
	return nil
}

// gcClass names the outcome of a (time-limited) collector cycle for the Coq model.
func gcClass(err error) string {
	switch {
	case err == nil:
		return "GOk"
	case errors.Is(err, context.DeadlineExceeded):
		return "GDeadline"
	}
	return "GErr"
}

func coqBudget(b int64) string { return fmt.Sprintf("(Some %d%%nat)", b) }

// modelled reports whether every operation of the history exists in the Coq model.
func modelled(h *hist.History) bool {
	for _, o := range h.Ops {
		switch o.Kind {
		case "pgcb":
			return false // the interruption may fall into the freelist hand-over, whose work file the model does not have
		case "at":
			if o.Point != "store.commit.afterIndexFlush" && o.Point != "store.Flush.afterCommit" {
				return false
			}
		}
	}
	return true
}

// recordListCheck decodes, from the index files, the record list every non-empty bucket points at and checks the
// C08/C07 invariants on the real bytes: complete non-deleted record tagged with its bucket; entries sorted by stored
// prefix and pairwise prefix-free; every entry names a complete live primary record whose index key carries the
// bucket bits and the stored prefix; locations distinct. Returns "" or the first violation.
func (r *runner) recordListCheck() string {
	tbl := r.s.Index().VerifBuckets()
	files := map[int][]byte{}
	for b, p := range tbl {
		if p == 0 {
			continue
		}
		f := int((int64(p) - 4) / int64(r.h.Cfg.Imax))
		lp := int64(p) - int64(f)*int64(r.h.Cfg.Imax)
		data, ok := files[f]
		if !ok {
			var err error
			data, err = os.ReadFile(filepath.Join(r.dir, fmt.Sprintf("i.%d", f)))
			if err != nil {
				return fmt.Sprintf("bucket %d points into index file %d: %v", b, f, err)
			}
			files[f] = data
		}
		if lp < 4 || lp+4 > int64(len(data)) {
			return fmt.Sprintf("bucket %d points at %d in i.%d of %d bytes", b, lp, f, len(data))
		}
		raw := binary.LittleEndian.Uint32(data[lp-4:])
		if raw&(1<<31) != 0 {
			return fmt.Sprintf("bucket %d points at a deleted record (i.%d @%d)", b, f, lp)
		}
		sz := int64(raw)
		if lp+sz > int64(len(data)) || sz < 4 {
			return fmt.Sprintf("bucket %d points at an incomplete record (i.%d @%d size %d, file %d)", b, f, lp, sz, len(data))
		}
		if tag := binary.LittleEndian.Uint32(data[lp:]); int(tag) != b {
			return fmt.Sprintf("bucket %d points at a record tagged %d", b, tag)
		}
		rl := data[lp+4 : lp+sz]
		var prev []byte
		seen := map[string]bool{}
		for q := 0; q < len(rl); {
			if q+13 > len(rl) {
				return fmt.Sprintf("bucket %d: truncated entry", b)
			}
			off := binary.LittleEndian.Uint64(rl[q:])
			bsz := binary.LittleEndian.Uint32(rl[q+8:])
			kl := int(rl[q+12])
			if q+13+kl > len(rl) {
				return fmt.Sprintf("bucket %d: truncated key", b)
			}
			pfx := rl[q+13 : q+13+kl]
			q += 13 + kl
			if kl == 0 {
				return fmt.Sprintf("bucket %d: empty stored prefix", b)
			}
			if prev != nil {
				if string(prev) >= string(pfx) {
					return fmt.Sprintf("bucket %d: stored prefixes not strictly sorted: %x then %x", b, prev, pfx)
				}
				if len(prev) <= len(pfx) && string(pfx[:len(prev)]) == string(prev) {
					return fmt.Sprintf("bucket %d: stored prefix %x is a prefix of %x", b, prev, pfx)
				}
			}
			prev = pfx
			loc := fmt.Sprintf("%d:%d", off, bsz)
			if seen[loc] {
				return fmt.Sprintf("bucket %d: two entries name location %s", b, loc)
			}
			seen[loc] = true
			k, _, err := r.s.Primary().Get(types.Block{Offset: types.Position(off), Size: types.Size(bsz)})
			if err != nil || k == nil {
				return fmt.Sprintf("bucket %d: entry %x names location %s which holds no live record (%v)", b, pfx, loc, err)
			}
			ik, err := r.s.Primary().IndexKey(k)
			if err != nil || len(ik) < 4 {
				return fmt.Sprintf("bucket %d: entry %x: bad key in primary", b, pfx)
			}
			if int(binary.LittleEndian.Uint32(ik)&(1<<r.bits-1)) != b {
				return fmt.Sprintf("bucket %d: entry %x names a record of bucket %d", b, pfx, binary.LittleEndian.Uint32(ik)&(1<<r.bits-1))
			}
			st := ik[r.bits/8:]
			if len(st) < kl || string(st[:kl]) != string(pfx) {
				return fmt.Sprintf("bucket %d: stored prefix %x is not a prefix of its own key %x", b, pfx, st)
			}
		}
	}
	return ""
}

// fsck runs the independent format reader against the live bucket table.
func (r *runner) fsck() string {
	tbl := r.s.Index().VerifBuckets()
	t := make([]uint64, len(tbl))
	for i, p := range tbl {
		t[i] = uint64(p)
	}
	return fsck.Check(r.dir, fsck.Config{Bits: r.bits, Imax: r.h.Cfg.Imax, Pmax: r.h.Cfg.Pmax}, t)
}

func hx(b []byte) *string { s := hex.EncodeToString(b); return &s }

func (r *runner) run() (term string, err error) {
	defer func() {
		if p := recover(); p != nil {
			err = fmt.Errorf("panic: %v", p)
		}
	}()
	h := r.h
	r.dir, _ = os.MkdirTemp("", "sth")
	defer os.RemoveAll(r.dir)
	r.bits = h.Cfg.Bits
	if r.s, err = r.open(r.dir, r.bits); err != nil {
		return "", err
	}
	seen := map[string]bool{}
	for _, o := range h.Ops {
		if o.Key != nil && !seen[string(o.Key)] {
			seen[string(o.Key)] = true
			r.keys = append(r.keys, o.Key)
		}
	}
	pendingCrash := int64(-1)
	var pendingInner []string // Coq terms of inline operations; for the modelled yield points they linearize right after the outer Flush
	var pendingRecs []rec
	defer verifhook.Set(nil)
	for i, o := range h.Ops {
		jr := rec{Hist: h.Path, I: i, Op: o.Kind, N: o.N}
		extra := map[string]interface{}{}
		if o.Key != nil {
			jr.Key = hex.EncodeToString(o.Key)
		}
		s := r.s
		switch o.Kind {
		case "at":
			// install the interference; it fires once, during the next operation
			inner := o
			fired := false
			innerIdx := i
			r.hook = func(point string) {
				if point != inner.Point || fired {
					return
				}
				fired = true
				ir := rec{Hist: h.Path, I: innerIdx, Op: inner.Inner, Key: hex.EncodeToString(inner.Key)}
				iextra := map[string]interface{}{"at": inner.Point}
				switch inner.Inner {
				case "put":
					b0 := r.blockOf(inner.Key)
					e := r.s.Put(inner.Key, inner.Val)
					ir.Val, ir.Res = hx(inner.Val), errClass(e)
					iextra["blk_before"], iextra["blk_after"] = b0, r.blockOf(inner.Key)
					pendingInner = append(pendingInner, fmt.Sprintf("(YX (XO (OPut %s %s)), XR %s)", coqBytes(inner.Key), coqBytes(inner.Val), ir.Res))
				case "remove":
					b0 := r.blockOf(inner.Key)
					rm, e := r.s.Remove(inner.Key)
					ir.Res = errClass(e)
					c := fmt.Sprintf("RBool %v", rm)
					if e != nil {
						c = "RErr"
					} else {
						ir.Found = &rm
					}
					iextra["blk_before"], iextra["blk_after"] = b0, r.blockOf(inner.Key)
					pendingInner = append(pendingInner, fmt.Sprintf("(YX (XO (ORemove %s)), XR (%s))", coqBytes(inner.Key), c))
				case "get":
					v, f, e := r.s.Get(inner.Key)
					ir.Res = errClass(e)
					c := fmt.Sprintf("RVal %v %s", f, coqBytes(v))
					if e != nil {
						c = "RErr"
					} else {
						ir.Found, ir.Out = &f, hx(v)
					}
					pendingInner = append(pendingInner, fmt.Sprintf("(YX (XO (OGet %s)), XR (%s))", coqBytes(inner.Key), c))
				}
				ir.Extra = iextra
				pendingRecs = append(pendingRecs, ir)
			}
			verifhook.Set(r.hook)
			continue
		case "put":
			b0 := r.blockOf(o.Key)
			e := s.Put(o.Key, o.Val)
			jr.Val = hx(o.Val)
			jr.Res = errClass(e)
			extra["blk_before"], extra["blk_after"] = b0, r.blockOf(o.Key)
			r.ops = append(r.ops, fmt.Sprintf("(YX (XO (OPut %s %s)), XR %s)", coqBytes(o.Key), coqBytes(o.Val), jr.Res))
		case "get":
			v, f, e := s.Get(o.Key)
			c := fmt.Sprintf("RVal %v %s", f, coqBytes(v))
			jr.Res = errClass(e)
			if e != nil {
				c = "RErr"
			} else {
				jr.Found, jr.Out = &f, hx(v)
			}
			r.ops = append(r.ops, fmt.Sprintf("(YX (XO (OGet %s)), XR (%s))", coqBytes(o.Key), c))
		case "has":
			f, e := s.Has(o.Key)
			c := fmt.Sprintf("RBool %v", f)
			jr.Res = errClass(e)
			if e != nil {
				c = "RErr"
			} else {
				jr.Found = &f
			}
			r.ops = append(r.ops, fmt.Sprintf("(YX (XO (OHas %s)), XR (%s))", coqBytes(o.Key), c))
		case "size":
			sz, f, e := s.GetSize(o.Key)
			c := fmt.Sprintf("RSize %v %d", f, sz)
			jr.Res = errClass(e)
			if e != nil {
				c = "RErr"
			} else {
				n := int64(sz)
				jr.Found, jr.Size = &f, &n
			}
			r.ops = append(r.ops, fmt.Sprintf("(YX (XO (OSize %s)), XR (%s))", coqBytes(o.Key), c))
		case "remove":
			b0 := r.blockOf(o.Key)
			rm, e := s.Remove(o.Key)
			extra["blk_before"], extra["blk_after"] = b0, r.blockOf(o.Key)
			c := fmt.Sprintf("RBool %v", rm)
			jr.Res = errClass(e)
			if e != nil {
				c = "RErr"
			} else {
				jr.Found = &rm
			}
			r.ops = append(r.ops, fmt.Sprintf("(YX (XO (ORemove %s)), XR (%s))", coqBytes(o.Key), c))
		case "crash":
			pendingCrash = o.N
			jr.Res = "ROk"
		case "flush":
			before := fileSizes(r.dir, "i")
			var freeBefore int64
			if st, e := os.Stat(filepath.Join(r.dir, "i.free")); e == nil {
				freeBefore = st.Size()
			}
			e := s.Flush()
			recs := appendedRecs(r.dir, before)
			order := buckets(recs)
			jr.Res = errClass(e)
			if e == nil && pendingCrash >= 0 {
				keep := int(pendingCrash % int64(len(recs)+1))
				crash := crashImage(r.dir, before, freeBefore, recs, keep)
				cs, oerr := r.open(crash, r.bits)
				if oerr != nil {
					os.RemoveAll(crash)
					return "", fmt.Errorf("op %d: open of crash image failed: %v", i, oerr)
				}
				var gets []string
				type g struct {
					Key   string `json:"key"`
					Found bool   `json:"found"`
					Out   string `json:"out"`
					Err   string `json:"err,omitempty"`
				}
				var gl []g
				for _, k := range r.keys {
					v, f, gerr := cs.Get(k)
					c := fmt.Sprintf("RVal %v %s", f, coqBytes(v))
					gj := g{Key: hex.EncodeToString(k), Found: f, Out: hex.EncodeToString(v)}
					if gerr != nil {
						c = "RErr"
						gj.Err = gerr.Error()
					}
					gets = append(gets, fmt.Sprintf("(%s, %s)", coqBytes(k), c))
					gl = append(gl, gj)
				}
				cs.Close()
				os.RemoveAll(crash)
				// the crash is hypothetical: it is placed before the flush it cuts
				r.ops = append(r.ops, fmt.Sprintf("(YCrash %s [%s], XR ROk)", nlist(order[:keep]), strings.Join(gets, ";")))
				extra["crash_keep"], extra["crash_of"], extra["gets"] = keep, len(recs), gl
			}
			pendingCrash = -1
			r.ops = append(r.ops, fmt.Sprintf("(YX (XO (OFlush %s)), XR %s)", nlist(order), jr.Res))
			r.ops = append(r.ops, pendingInner...)
			pendingInner = nil
			r.observe()
			extra["dir"] = r.dirState()
			extra["pools_empty"] = len(pendingRecs) == 0
			if len(pendingRecs) == 0 && e == nil {
				extra["rl_check"] = r.recordListCheck()
				extra["fsck"] = r.fsck()
			}
		case "reopen", "missize":
			r.resumeMaybe = false // the resume cursor lives in memory only
			before := fileSizes(r.dir, "i")
			if e := s.Close(); e != nil {
				return "", fmt.Errorf("op %d: close: %v", i, e)
			}
			if e := s.Close(); e != nil {
				extra["second_close_err"] = e.Error()
			}
			order := buckets(appendedRecs(r.dir, before))
			rescan := o.Kind == "reopen" && o.N != 0
			if o.Kind == "missize" {
				// a different index / primary file-size limit must be refused, and refuse without damage
				_, e1 := store.OpenStore(context.Background(), store.MultihashPrimary, filepath.Join(r.dir, "d"), filepath.Join(r.dir, "i"), r.h.Cfg.Imm,
					store.IndexBitSize(r.bits), store.IndexFileSize(otherSize(r.h.Cfg.Imax)), store.PrimaryFileSize(r.h.Cfg.Pmax),
					store.GCInterval(time.Hour), store.SyncInterval(time.Hour))
				_, isIdx := e1.(types.ErrIndexWrongFileSize)
				_, e2 := store.OpenStore(context.Background(), store.MultihashPrimary, filepath.Join(r.dir, "d"), filepath.Join(r.dir, "i"), r.h.Cfg.Imm,
					store.IndexBitSize(r.bits), store.IndexFileSize(r.h.Cfg.Imax), store.PrimaryFileSize(otherSize(r.h.Cfg.Pmax)),
					store.GCInterval(time.Hour), store.SyncInterval(time.Hour))
				_, isPri := e2.(types.ErrPrimaryWrongFileSize)
				nb := uint8(8)
				if r.bits == 8 {
					nb = 12
				}
				_, e3 := store.OpenStore(context.Background(), store.MultihashPrimary, filepath.Join(r.dir, "d"), filepath.Join(r.dir, "i"), r.h.Cfg.Imm,
					store.IndexBitSize(nb), store.IndexFileSize(otherSize(r.h.Cfg.Imax)), store.PrimaryFileSize(r.h.Cfg.Pmax),
					store.GCInterval(time.Hour), store.SyncInterval(time.Hour))
				extra["both_refused"] = e3 != nil // refused (the specific error arrives wrapped by the translation path)
				if e3 != nil {
					extra["both_err"] = e3.Error()
				}
				extra["index_size_refused"], extra["primary_size_refused"] = isIdx, isPri
				if e1 != nil {
					extra["index_size_err"] = e1.Error()
				}
				if e2 != nil {
					extra["primary_size_err"] = e2.Error()
				}
			}
			// the other recovery path, on a copy
			alt, _ := os.MkdirTemp("", "alt")
			if err := exec.Command("cp", "-r", r.dir+"/.", alt).Run(); err != nil {
				panic(err)
			}
			switch {
			case o.Kind == "reopen" && o.N == 1:
				os.Remove(filepath.Join(r.dir, "i.buckets"))
			case o.Kind == "reopen" && o.N >= 2:
				if st, e := os.Stat(filepath.Join(r.dir, "i.buckets")); e == nil && st.Size() >= 8 {
					os.Truncate(filepath.Join(r.dir, "i.buckets"), st.Size()-8) // unusable snapshot
				}
			default:
				os.Remove(filepath.Join(alt, "i.buckets"))
			}
			ns, e := r.open(r.dir, r.bits)
			if e != nil {
				os.RemoveAll(alt)
				return "", fmt.Errorf("op %d: reopen: %v", i, e)
			}
			r.s = ns
			as, e := r.open(alt, r.bits)
			if e != nil {
				extra["paths_agree"], extra["paths_detail"] = false, "other path failed to open: "+e.Error()
			} else {
				t1, t2 := ns.Index().VerifBuckets(), as.Index().VerifBuckets()
				agree, detail := len(t1) == len(t2), ""
				for b := range t1 {
					if agree && t1[b] != t2[b] {
						agree, detail = false, fmt.Sprintf("bucket %d: %d vs %d", b, t1[b], t2[b])
					}
				}
				for _, k := range r.keys {
					v1, f1, e1 := ns.Get(k)
					v2, f2, e2 := as.Get(k)
					if agree && (f1 != f2 || string(v1) != string(v2) || (e1 == nil) != (e2 == nil)) {
						agree, detail = false, fmt.Sprintf("Get(%x): %v %x %v vs %v %x %v", k, f1, v1, e1, f2, v2, e2)
					}
				}
				extra["paths_agree"], extra["paths_detail"] = agree, detail
				as.Close()
			}
			os.RemoveAll(alt)
			jr.Res = "ROk"
			r.ops = append(r.ops, fmt.Sprintf("(YX (XO (OReopen %s %v)), XR ROk)", nlist(order), rescan))
			r.observe()
			extra["fsck"] = r.fsck()
		case "rebits":
			r.resumeMaybe = false
			before := fileSizes(r.dir, "i")
			if e := s.Close(); e != nil {
				return "", fmt.Errorf("op %d: close: %v", i, e)
			}
			order0 := buckets(appendedRecs(r.dir, before))
			nb := uint8(o.N)
			ns, e := r.open(r.dir, nb)
			if e != nil {
				return "", fmt.Errorf("op %d: reopen with %d bits: %v", i, nb, e)
			}
			r.s = ns
			jr.Res = "ROk"
			if nb != r.bits {
				order := buckets(appendedRecs(r.dir, map[int]int64{}))
				r.ops = append(r.ops, fmt.Sprintf("(YTranslate %s %d %s, XR ROk)", nlist(order0), nb, nlist(order)))
			} else {
				r.ops = append(r.ops, fmt.Sprintf("(YX (XO (OReopen %s false)), XR ROk)", nlist(order0)))
			}
			r.bits = nb
			r.observe()
		case "igc":
			_, _, e := s.Index().VerifGC(context.Background(), o.N != 0)
			jr.Res = errClass(e)
			if r.resumeMaybe {
				// a time-limited cycle may have left a resume cursor: the unlimited cycle of the budget-aware model honours it
				r.ops = append(r.ops, fmt.Sprintf("(YIgcB %v None %s, XR ROk)", o.N != 0, gcClass(e)))
			} else {
				r.ops = append(r.ops, fmt.Sprintf("(YX (XO (OIndexGC %v)), XR %s)", o.N != 0, jr.Res))
			}
			r.observe()
			extra["dir"] = r.dirState()
			extra["fsck_after_gc"] = r.fsck()
		case "pgc":
			_, e := s.Primary().(*mhprimary.MultihashPrimary).GC(context.Background(), o.N)
			jr.Res = errClass(e)
			r.ops = append(r.ops, fmt.Sprintf("(YX (XO (OPrimaryGC %d)), XR %s)", o.N, jr.Res))
			r.observe()
			extra["dir"] = r.dirState()
			extra["fsck_after_gc"] = r.fsck()
		case "pgcb":
			_, e := s.Primary().(*mhprimary.MultihashPrimary).GC(withBudget(o.B), o.N)
			jr.Res = errClass(e)
			extra["dir"] = r.dirState()
			extra["fsck_after_gc"] = r.fsck()
		case "igcb":
			_, _, e := s.Index().VerifGC(withBudget(o.B), o.N != 0)
			jr.Res = errClass(e)
			extra["gc_class"] = gcClass(e)
			r.resumeMaybe = true
			r.ops = append(r.ops, fmt.Sprintf("(YIgcB %v %s %s, XR ROk)", o.N != 0, coqBudget(o.B), gcClass(e)))
			r.observe()
			extra["dir"] = r.dirState()
			extra["fsck_after_gc"] = r.fsck()
		case "pgcl":
			armed := false
			left := o.B
			prev := r.hook
			verifhook.Set(func(point string) {
				if point == "gc.afterFreeList" {
					armed = true
				}
				if prev != nil {
					prev(point)
				}
			})
			_, e := s.Primary().(*mhprimary.MultihashPrimary).GC(armedCtx{context.Background(), &left, &armed}, o.N)
			jr.Res = errClass(e)
			extra["gc_class"] = gcClass(e)
			r.ops = append(r.ops, fmt.Sprintf("(YPgcL %d %s %s, XR ROk)", o.N, coqBudget(o.B), gcClass(e)))
			r.observe()
			extra["dir"] = r.dirState()
			extra["fsck_after_gc"] = r.fsck()
		case "iter":
			// NewIterator flushes first: for the model this is a Flush with the observed bucket order
			before := fileSizes(r.dir, "i")
			it := s.NewIterator()
			order := buckets(appendedRecs(r.dir, before))
			r.ops = append(r.ops, fmt.Sprintf("(YX (XO (OFlush %s)), XR ROk)", nlist(order)))
			jr.Res = "ROk"
			items := [][2]string{}
			for {
				k, v, ierr := it.Next()
				if ierr == io.EOF {
					break
				}
				if ierr != nil {
					jr.Res = "RErr"
					break
				}
				items = append(items, [2]string{hex.EncodeToString(k), hex.EncodeToString(v)})
			}
			extra["items"] = items
			if jr.Res == "ROk" {
				var its []string
				for _, it2 := range items {
					kb, _ := hex.DecodeString(it2[0])
					vb, _ := hex.DecodeString(it2[1])
					its = append(its, fmt.Sprintf("(%s, %s)", coqBytes(kb), coqBytes(vb)))
				}
				r.ops = append(r.ops, fmt.Sprintf("(YIter [%s], XR ROk)", strings.Join(its, ";")))
			}
		default:
			return "", fmt.Errorf("op %d: unknown kind %s", i, o.Kind)
		}
		if len(extra) > 0 {
			jr.Extra = extra
		}
		verifhook.Set(nil)
		r.hook = nil
		r.enc.Encode(jr)
		for _, pr := range pendingRecs {
			r.enc.Encode(pr)
		}
		pendingRecs = nil
		r.ops = append(r.ops, pendingInner...) // an interference that fired inside another kind of operation
		pendingInner = nil
	}
	if e := r.s.Close(); e != nil {
		return "", fmt.Errorf("final close: %v", e)
	}
	if !modelled(h) {
		return "", nil
	}
	return fmt.Sprintf("  mkcase5 %d %d %d %v [\n    %s]", h.Cfg.Bits, h.Cfg.Imax, h.Cfg.Pmax, h.Cfg.Imm, strings.Join(r.ops, ";\n    ")), nil
}

func main() {
	coq := flag.String("coq", "", "file to write the Coq case terms to (one per history, separated by a line holding ';')")
	trace := flag.String("trace", "", "file to write the JSON trace to")
	flag.Parse()
	tf, err := os.Create(*trace)
	if err != nil {
		panic(err)
	}
	defer tf.Close()
	enc := json.NewEncoder(tf)
	var terms []string
	for _, p := range flag.Args() {
		h, err := hist.Parse(p)
		if err != nil {
			fmt.Fprintln(os.Stderr, err)
			os.Exit(2)
		}
		r := &runner{h: h, enc: enc}
		term, err := r.run()
		if err != nil {
			enc.Encode(rec{Hist: p, I: -1, Op: "harness", Res: "FAILED", Extra: err.Error()})
			terms = append(terms, "")
			continue
		}
		enc.Encode(rec{Hist: p, I: -1, Op: "harness", Res: "DONE"})
		terms = append(terms, term)
	}
	if *coq != "" {
		var sb strings.Builder
		for i, t := range terms {
			fmt.Fprintf(&sb, "(*CASE %s*)\n%s\n", flag.Arg(i), t)
		}
		os.WriteFile(*coq, []byte(sb.String()), 0o644)
	}
}
