// closedrive observes what C17 states about the real store: after Close returns no goroutine of the module is alive,
// no descriptor points into the store's directory, nothing in the directory changes; failed opens release everything;
// Close waits for a GC cycle or a rate-limited flush that is in progress (parked at a verif yield point).
//
//	closedrive <seed>     prints one line per scenario: "<name> PASS|FAIL <detail>"; exit 1 if any failed
package main

import (
	"bytes"
	"context"
	"fmt"
	"math/rand"
	"os"
	"path/filepath"
	"runtime"
	"runtime/debug"
	"sort"
	"strconv"
	"strings"
	"sync"
	"time"

	"github.com/ipld/go-storethehash/store"
	"github.com/ipld/go-storethehash/store/verifhook"
)

func key(b byte) []byte { return []byte{0x12, 6, 7, 7, 7, b, b, b} }

func moduleGoroutines() []string {
	buf := make([]byte, 1<<20)
	n := runtime.Stack(buf, true)
	var out []string
	for _, g := range strings.Split(string(buf[:n]), "\n\n") {
		if strings.Contains(g, "go-storethehash/store") && !strings.Contains(g, "main.moduleGoroutines") {
			lines := strings.Split(g, "\n")
			top := ""
			for _, l := range lines {
				if strings.Contains(l, "go-storethehash/store") {
					top = strings.TrimSpace(l)
					break
				}
			}
			out = append(out, top)
		}
	}
	return out
}

func fdsInto(dir string) []string {
	var out []string
	ents, _ := os.ReadDir("/proc/self/fd")
	for _, e := range ents {
		t, err := os.Readlink("/proc/self/fd/" + e.Name())
		if err == nil && strings.HasPrefix(t, dir) {
			out = append(out, filepath.Base(t))
		}
	}
	sort.Strings(out)
	return out
}

func snapshot(dir string) string {
	var sb strings.Builder
	filepath.Walk(dir, func(p string, fi os.FileInfo, err error) error {
		if err == nil && !fi.IsDir() {
			fmt.Fprintf(&sb, "%s:%d:%d;", strings.TrimPrefix(p, dir), fi.Size(), fi.ModTime().UnixNano())
		}
		return nil
	})
	return sb.String()
}

// census: call right after Close (or a failed open) returned.
func census(dir string, settle time.Duration) string {
	// goroutines get a moment to unwind their last frames
	var gs []string
	for i := 0; i < 20; i++ {
		gs = moduleGoroutines()
		if len(gs) == 0 {
			break
		}
		time.Sleep(5 * time.Millisecond)
	}
	if len(gs) > 0 {
		return fmt.Sprintf("%d goroutine(s) of the store still alive: %s", len(gs), gs[0])
	}
	if fds := fdsInto(dir); len(fds) > 0 {
		return fmt.Sprintf("%d descriptor(s) into the store directory still open: %v", len(fds), fds)
	}
	s0 := snapshot(dir)
	time.Sleep(settle)
	if s1 := snapshot(dir); s1 != s0 {
		return "the directory changed after Close returned"
	}
	if gs = moduleGoroutines(); len(gs) > 0 {
		return fmt.Sprintf("goroutine(s) of the store appeared after Close: %s", gs[0])
	}
	return ""
}

func open(dir string, gcInt, syncInt time.Duration, pmax uint32, extra ...store.Option) (*store.Store, error) {
	opts := append([]store.Option{store.IndexBitSize(8), store.IndexFileSize(200), store.PrimaryFileSize(pmax), store.GCInterval(gcInt),
		store.GCTimeLimit(50 * time.Millisecond), store.SyncInterval(syncInt)}, extra...)
	return store.OpenStore(context.Background(), store.MultihashPrimary, filepath.Join(dir, "d"), filepath.Join(dir, "i"), false, opts...)
}

type scenario struct {
	name string
	run  func(rng *rand.Rand) string
}

func lowUse(s *store.Store) {
	for b := byte(1); b <= 6; b++ {
		s.Put(key(b), bytes.Repeat([]byte{'a' + b}, 18))
	}
	s.Put(key(9), bytes.Repeat([]byte{'1'}, 18))
	s.Flush()
	for b := byte(1); b <= 6; b++ {
		s.Put(key(b), bytes.Repeat([]byte{'A' + b}, 18))
	}
	s.Flush()
}

// closeWhileParked: the background goroutine reaches `point` and is parked there; Close is called; it must not return
// before the parked cycle is released, and afterwards everything is released.
func closeWhileParked(point string, prepare func(s *store.Store), gcInt time.Duration, pmax uint32, extra ...store.Option) string {
	return closeWhileParkedFor(0, point, prepare, gcInt, pmax, extra...)
}

// closeWhileParkedFor: as closeWhileParked, but Close is issued only after the cycle has been parked for `hold` - longer than the
// collector's interval, so that a collector which does not wait for its running cycle before it arms the next one shows itself.
func closeWhileParkedFor(hold time.Duration, point string, prepare func(s *store.Store), gcInt time.Duration, pmax uint32, extra ...store.Option) string {
	dir, _ := os.MkdirTemp("", "close")
	defer os.RemoveAll(dir)
	parked := make(chan struct{})
	release := make(chan struct{})
	var once, ronce sync.Once
	rel := func() { ronce.Do(func() { close(release) }) }
	verifhook.Set(func(p string) {
		if p == point {
			first := false
			once.Do(func() { first = true })
			if first {
				close(parked)
				<-release
			}
		}
	})
	defer verifhook.Set(nil)
	s, err := open(dir, gcInt, time.Hour, pmax, extra...)
	if err != nil {
		return "open: " + err.Error()
	}
	prepare(s)
	select {
	case <-parked:
	case <-time.After(5 * time.Second):
		rel()
		s.Close()
		return "SKIP the background goroutine never reached " + point
	}
	time.Sleep(hold)
	closed := make(chan error, 1)
	go func() { closed <- s.Close() }()
	select {
	case <-closed:
		rel()
		time.Sleep(50 * time.Millisecond)
		return "Close returned while a background cycle was still parked at " + point
	case <-time.After(250 * time.Millisecond):
	}
	rel()
	select {
	case err := <-closed:
		if err != nil {
			return "Close: " + err.Error()
		}
	case <-time.After(5 * time.Second):
		return "Close did not return within 5 s after the cycle was released"
	}
	verifhook.Set(nil)
	if bad := census(dir, 3*gcInt); bad != "" {
		return bad
	}
	if lowUseContents {
		// C02: what Close wrote is what a reopen finds - also when a cycle (a relocation) was in progress while Close ran
		os.Remove(filepath.Join(dir, "i.buckets"))
		s2, err := open(dir, time.Hour, time.Hour, pmax, extra...)
		if err != nil {
			return "contents: reopen after Close: " + err.Error()
		}
		defer s2.Close()
		for b := byte(1); b <= 6; b++ {
			v, ok, err := s2.Get(key(b))
			if err != nil || !ok || !bytes.Equal(v, bytes.Repeat([]byte{'A' + b}, 18)) {
				return fmt.Sprintf("contents: after Close (during a GC cycle) and reopen Get(key %d) = %q found=%v err=%v", b, v, ok, err)
			}
		}
		v, ok, err := s2.Get(key(9))
		if err != nil || !ok || !bytes.Equal(v, bytes.Repeat([]byte{'1'}, 18)) {
			return fmt.Sprintf("contents: after Close (during a GC cycle) and reopen Get(key 9) = %q found=%v err=%v", v, ok, err)
		}
	}
	return ""
}

// lowUseContents: the scenario prepared the store with lowUse; after Close the contents are read back
var lowUseContents bool

var scenarios = []scenario{
	{"open-start-ops-close-cycles", func(rng *rand.Rand) string {
		dir, _ := os.MkdirTemp("", "close")
		defer os.RemoveAll(dir)
		for c := 0; c < 4; c++ {
			s, err := open(dir, 10*time.Millisecond, 4*time.Millisecond, 100)
			if err != nil {
				return "open: " + err.Error()
			}
			s.Start()
			for i := 0; i < 150; i++ {
				k := key(byte(rng.Intn(12)))
				switch rng.Intn(5) {
				case 0, 1:
					s.Put(k, bytes.Repeat([]byte{byte(rng.Intn(200))}, 1+rng.Intn(30)))
				case 2:
					s.Get(k)
				case 3:
					s.Remove(k)
				default:
					s.Has(k)
				}
				if i%40 == 0 {
					time.Sleep(12 * time.Millisecond) // let GC cycles run
				}
			}
			if err := s.Close(); err != nil {
				return "Close: " + err.Error()
			}
			if err := s.Close(); err != nil {
				return "second Close: " + err.Error()
			}
			if bad := census(dir, 40*time.Millisecond); bad != "" {
				return fmt.Sprintf("cycle %d: %s", c, bad)
			}
		}
		return ""
	}},
	{"close-without-start", func(rng *rand.Rand) string {
		dir, _ := os.MkdirTemp("", "close")
		defer os.RemoveAll(dir)
		s, err := open(dir, 10*time.Millisecond, time.Hour, 100)
		if err != nil {
			return err.Error()
		}
		lowUse(s)
		time.Sleep(30 * time.Millisecond)
		if err := s.Close(); err != nil {
			return "Close: " + err.Error()
		}
		return census(dir, 40*time.Millisecond)
	}},
	{"failed-opens-release-everything", func(rng *rand.Rand) string {
		dir, _ := os.MkdirTemp("", "close")
		defer os.RemoveAll(dir)
		s, err := open(dir, time.Hour, time.Hour, 100)
		if err != nil {
			return err.Error()
		}
		lowUse(s)
		s.Close()
		tries := []struct {
			what string
			f    func() error
		}{
			{"another index file size", func() error {
				_, e := store.OpenStore(context.Background(), store.MultihashPrimary, filepath.Join(dir, "d"), filepath.Join(dir, "i"), false,
					store.IndexBitSize(8), store.IndexFileSize(201), store.PrimaryFileSize(100), store.GCInterval(10*time.Millisecond))
				return e
			}},
			{"another primary file size", func() error {
				_, e := store.OpenStore(context.Background(), store.MultihashPrimary, filepath.Join(dir, "d"), filepath.Join(dir, "i"), false,
					store.IndexBitSize(8), store.IndexFileSize(200), store.PrimaryFileSize(101), store.GCInterval(10*time.Millisecond))
				return e
			}},
			{"another bit size and another index file size", func() error {
				_, e := store.OpenStore(context.Background(), store.MultihashPrimary, filepath.Join(dir, "d"), filepath.Join(dir, "i"), false,
					store.IndexBitSize(12), store.IndexFileSize(201), store.PrimaryFileSize(100), store.GCInterval(10*time.Millisecond))
				return e
			}},
			{"an unknown primary type", func() error {
				_, e := store.OpenStore(context.Background(), "nosuchprimary", filepath.Join(dir, "d"), filepath.Join(dir, "i"), false,
					store.IndexBitSize(8), store.IndexFileSize(200), store.PrimaryFileSize(100))
				return e
			}},
			{"a corrupted index header", func() error {
				hp := filepath.Join(dir, "i.info")
				old, _ := os.ReadFile(hp)
				os.WriteFile(hp, []byte("{not json"), 0o644)
				defer os.WriteFile(hp, old, 0o644)
				_, e := open(dir, 10*time.Millisecond, time.Hour, 100)
				return e
			}},
		}
		for _, t := range tries {
			for i := 0; i < 3; i++ {
				if e := t.f(); e == nil {
					return "open with " + t.what + " succeeded"
				}
			}
			if bad := census(dir, 30*time.Millisecond); bad != "" {
				return "after 3 failed opens with " + t.what + ": " + bad
			}
		}
		// and the store still opens with the original settings
		s, err = open(dir, time.Hour, time.Hour, 100)
		if err != nil {
			return "reopen with the original settings: " + err.Error()
		}
		v, ok, _ := s.Get(key(9))
		s.Close()
		if !ok || len(v) != 18 {
			return "contents damaged by failed opens"
		}
		return census(dir, 30*time.Millisecond)
	}},
	{"reopen-with-other-bit-sizes-releases-everything", func(rng *rand.Rand) string {
		// re-bucketing opens the old and a new index with file caches of their own: they too must be closed (no finalizer may
		// hide a leaked descriptor: the collector of the Go runtime is off during the scenario)
		defer debug.SetGCPercent(debug.SetGCPercent(-1))
		dir, _ := os.MkdirTemp("", "close")
		defer os.RemoveAll(dir)
		s, err := open(dir, time.Hour, time.Hour, 100)
		if err != nil {
			return err.Error()
		}
		lowUse(s)
		if err = s.Close(); err != nil {
			return "Close: " + err.Error()
		}
		for _, bits := range []uint8{12, 8, 16, 9} {
			s, err = open(dir, time.Hour, time.Hour, 100, store.IndexBitSize(bits))
			if err != nil {
				return fmt.Sprintf("reopen with %d bits: %v", bits, err)
			}
			for _, fd := range fdsInto(dir) {
				if strings.Contains(fd, "deleted") {
					s.Close()
					return fmt.Sprintf("after re-bucketing to %d bits a descriptor of a replaced index file is still open: %s", bits, fd)
				}
			}
			v, ok, _ := s.Get(key(9))
			if !ok || len(v) != 18 {
				s.Close()
				return fmt.Sprintf("contents damaged by re-bucketing to %d bits", bits)
			}
			if err = s.Close(); err != nil {
				return "Close: " + err.Error()
			}
			if bad := census(dir, 20*time.Millisecond); bad != "" {
				return fmt.Sprintf("after re-bucketing to %d bits and Close: %s", bits, bad)
			}
		}
		return ""
	}},
	{"close-during-primary-gc-relocation", func(rng *rand.Rand) string {
		lowUseContents = true
		defer func() { lowUseContents = false }()
		return closeWhileParked("gc.reap.beforeUpdateIndex", lowUse, 60*time.Millisecond, 190)
	}},
	{"close-during-primary-gc-after-freelist", func(rng *rand.Rand) string {
		lowUseContents = true
		defer func() { lowUseContents = false }()
		return closeWhileParked("gc.afterFreeList", lowUse, 60*time.Millisecond, 190)
	}},
	{"close-while-a-primary-gc-cycle-outlasts-the-gc-interval", func(rng *rand.Rand) string {
		return closeWhileParkedFor(150*time.Millisecond, "gc.afterFreeList", lowUse, 30*time.Millisecond, 190)
	}},
	{"close-while-an-index-gc-cycle-outlasts-the-gc-interval", func(rng *rand.Rand) string {
		return closeWhileParkedFor(150*time.Millisecond, "index.gc.beforeReap", func(s *store.Store) {
			for r := 0; r < 4; r++ {
				for b := byte(1); b <= 6; b++ {
					s.Put(key(b), bytes.Repeat([]byte{'a' + b + byte(r)}, 18))
				}
				s.Flush()
			}
		}, 30*time.Millisecond, 190)
	}},
	{"close-during-index-gc", func(rng *rand.Rand) string {
		return closeWhileParked("index.gc.beforeReap", func(s *store.Store) {
			// several buckets, so that every index file keeps live record lists next to stale ones
			for r := 0; r < 4; r++ {
				for b := byte(1); b <= 6; b++ {
					if r > 0 && b%2 == 0 {
						continue
					}
					s.Put([]byte{0x12, 6, b, 7, 7, b, b, b}, bytes.Repeat([]byte{'a' + b + byte(r)}, 18))
					s.Flush()
				}
			}
		}, 60*time.Millisecond, 1<<20)
	}},
	{"close-while-writer-waits-for-flush", func(rng *rand.Rand) string {
		dir, _ := os.MkdirTemp("", "close")
		defer os.RemoveAll(dir)
		s, err := open(dir, time.Hour, 15*time.Millisecond, 1<<20, store.BurstRate(1))
		if err != nil {
			return err.Error()
		}
		s.Start()
		s.VerifSetFlushRate(1e-9)
		// Close is issued once the writer has really reached its wait (a fixed sleep is not enough on a loaded machine: a writer that
		// registers only after Close has stopped the flusher is a use after Close, not the situation this scenario is about)
		reached := make(chan struct{})
		var ronce sync.Once
		verifhook.Set(func(p string) {
			if p == "store.flushTick.beforeWait" {
				ronce.Do(func() { close(reached) })
			}
		})
		defer verifhook.Set(nil)
		done := make(chan struct{})
		go func() { s.Put(key(1), []byte("0123456789")); close(done) }()
		select {
		case <-reached:
		case <-done:
			// the periodic flusher was faster than the writer: nothing waited
		case <-time.After(10 * time.Second):
			s.Close()
			return "SKIP the writer never reached its wait"
		}
		time.Sleep(2 * time.Millisecond)
		if err := s.Close(); err != nil {
			return "Close: " + err.Error()
		}
		select {
		case <-done:
		case <-time.After(2 * time.Second):
			return "a rate-limited writer is still blocked 2 s after Close returned"
		}
		return census(dir, 50*time.Millisecond)
	}},
}

func main() {
	seed, _ := strconv.ParseInt(os.Args[1], 10, 64)
	fail := 0
	for _, sc := range scenarios {
		if len(os.Args) > 2 && os.Args[2] != sc.name {
			continue
		}
		rng := rand.New(rand.NewSource(seed))
		bad := func() (bad string) {
			defer func() {
				if r := recover(); r != nil {
					bad = fmt.Sprint("panic: ", r)
				}
			}()
			return sc.run(rng)
		}()
		verifhook.Set(nil)
		st := "PASS"
		if strings.HasPrefix(bad, "SKIP") {
			st = "SKIP"
		} else if bad != "" {
			st = "FAIL"
			fail++
		}
		fmt.Printf("%s %s %s\n", sc.name, st, bad)
	}
	if fail > 0 {
		os.Exit(1)
	}
}
