// fcdrive executes operation sequences on the real store/filecache with real files and records, after every
// operation, what the model predicts: the result, which of the handles ever returned are still open at the OS,
// Len and Cap. One sequence per input line:
//
//	<cap> ; open N ; closeref J ; remove N ; clear ; setsize N ; ...
//
// closeref J releases the (J mod held)-th reference the user currently holds (skipped when none is held), so that every
// sequence obeys the user protocol (Close only what you hold).
//
//	fcdrive <in> <out.coq> <out.jsonl>
package main

import (
	"bufio"
	"encoding/json"
	"fmt"
	"os"
	"path/filepath"
	"sort"
	"strconv"
	"strings"

	"github.com/ipld/go-storethehash/store/filecache"
)

type obs struct {
	Seq   int    `json:"seq"`
	I     int    `json:"i"`
	Op    string `json:"op"`
	Out   string `json:"out"`
	Open  []int  `json:"open"`
	Lent  []int  `json:"lent"`
	Len   int    `json:"len"`
	Cap   int    `json:"cap"`
	Panic string `json:"panic,omitempty"`
}

func nat(xs []int) string {
	var s []string
	for _, x := range xs {
		s = append(s, strconv.Itoa(x))
	}
	return "[" + strings.Join(s, ";") + "]"
}

func runSeq(seq int, line string, dir string, enc *json.Encoder) (term string) {
	parts := strings.Split(line, ";")
	c0, _ := strconv.Atoi(strings.TrimSpace(parts[0]))
	c := filecache.New(c0)
	var handles []*os.File // by id
	id := map[*os.File]int{}
	var held []int // references the user holds (handle ids, with multiplicity), in acquisition order
	var terms []string
	defer func() {
		if r := recover(); r != nil {
			enc.Encode(obs{Seq: seq, I: -1, Op: "panic", Panic: fmt.Sprint(r)})
			term = ""
		}
	}()
	for i, p := range parts[1:] {
		f := strings.Fields(p)
		if len(f) == 0 {
			continue
		}
		var coqOp, out string
		switch f[0] {
		case "open":
			n, _ := strconv.Atoi(f[1])
			name := filepath.Join(dir, fmt.Sprintf("f%d", n))
			if _, err := os.Stat(name); err != nil {
				os.WriteFile(name, []byte("x"), 0o644)
			}
			file, err := c.Open(name)
			if err != nil {
				panic(err)
			}
			h, ok := id[file]
			if !ok {
				h = len(handles)
				id[file] = h
				handles = append(handles, file)
			}
			held = append(held, h)
			coqOp, out = fmt.Sprintf("Open %d", n), fmt.Sprintf("OHandle %d", h)
		case "closeref":
			if len(held) == 0 {
				continue
			}
			j, _ := strconv.Atoi(f[1])
			j %= len(held)
			h := held[j]
			held = append(held[:j], held[j+1:]...)
			err := c.Close(handles[h])
			coqOp, out = fmt.Sprintf("Close %d", h), "OOk"
			if err != nil {
				out = "OErrClosed"
			}
		case "remove":
			n, _ := strconv.Atoi(f[1])
			c.Remove(filepath.Join(dir, fmt.Sprintf("f%d", n)))
			coqOp, out = fmt.Sprintf("Remove %d", n), "OOk"
		case "clear":
			c.Clear()
			coqOp, out = "Clear", "OOk"
		case "setsize":
			n, _ := strconv.Atoi(f[1])
			c.SetCacheSize(n)
			coqOp, out = fmt.Sprintf("SetSize %d", n), "OOk"
		default:
			panic("unknown op " + f[0])
		}
		var open []int
		for h, file := range handles {
			if _, err := file.Stat(); err == nil {
				open = append(open, h)
			}
		}
		lent := append([]int(nil), held...)
		sort.Ints(lent)
		o := obs{Seq: seq, I: i, Op: coqOp, Out: out, Open: open, Lent: lent, Len: c.Len(), Cap: c.Cap()}
		enc.Encode(o)
		terms = append(terms, fmt.Sprintf("(%s, %s, %s, %d, %d)", coqOp, out, nat(open), o.Len, o.Cap))
	}
	// release everything so that descriptors do not pile up across sequences
	for _, h := range held {
		c.Close(handles[h])
	}
	c.Clear()
	return fmt.Sprintf("  (%d, [%s])", c0, strings.Join(terms, "; "))
}

func main() {
	in, err := os.Open(os.Args[1])
	if err != nil {
		panic(err)
	}
	tf, _ := os.Create(os.Args[3])
	defer tf.Close()
	enc := json.NewEncoder(tf)
	dir, _ := os.MkdirTemp("", "fc")
	defer os.RemoveAll(dir)
	var terms []string
	sc := bufio.NewScanner(in)
	sc.Buffer(make([]byte, 1<<20), 1<<24)
	seq := 0
	for sc.Scan() {
		line := strings.TrimSpace(sc.Text())
		if line == "" {
			continue
		}
		t := runSeq(seq, line, dir, enc)
		terms = append(terms, fmt.Sprintf("(*SEQ %d*)\n%s", seq, t))
		seq++
	}
	os.WriteFile(os.Args[2], []byte(strings.Join(terms, "\n")+"\n"), 0o644)
}
