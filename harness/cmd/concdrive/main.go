// concdrive: deterministic cooperative scheduler over the verif yield points of the real store.
//
// A scenario (text, see parse below) names a configuration, a sequential setup, a set of threads with one call
// each, and a schedule (a list of thread names). Every controlled goroutine parks inside verifhook.Yield at each
// yield point it reaches; the controller resumes exactly one parked goroutine per schedule entry and waits until
// it parks again, finishes, or shows no sign of life for a short while (it is then blocked on a real lock or
// channel and keeps running in the background when that is released). When the schedule is exhausted all
// goroutines run freely; with "free flush" the controller keeps calling Flush meanwhile ("flushes keep succeeding").
// Output: one JSON document (events, per-thread result and logical call interval, stuck threads, final contents).
package main

import (
	"bufio"
	"bytes"
	"context"
	"encoding/binary"
	"encoding/hex"
	"encoding/json"
	"fmt"
	"os"
	"path/filepath"
	"runtime"
	"strconv"
	"strings"
	"sync"
	"sync/atomic"
	"time"

	"github.com/ipld/go-storethehash/store"
	mhprimary "github.com/ipld/go-storethehash/store/primary/multihash"
	"github.com/ipld/go-storethehash/store/types"
	"github.com/ipld/go-storethehash/store/verifhook"
	"verifharness/fsck"
)

// freeCensus reads, after the final Close and reopen (all pools written, nothing running), which primary locations the index names for the
// keys of the scenario, which the freelist (file and .gc work file) holds, and which records of the primary files are live or marked deleted.
func freeCensus(dir string, st *store.Store, keys [][]byte, pmax int64) map[string]interface{} {
	readFree := func(p string) []string {
		fl, _ := os.ReadFile(p)
		out := []string{}
		for q := 0; q+12 <= len(fl); q += 12 {
			out = append(out, fmt.Sprintf("%d:%d", binary.LittleEndian.Uint64(fl[q:]), binary.LittleEndian.Uint32(fl[q+8:])))
		}
		return out
	}
	cur := []string{}
	for _, k := range keys {
		ik, err := st.Primary().IndexKey(k)
		if err != nil {
			continue
		}
		blk, found, err := st.Index().Get(ik)
		if err != nil || !found {
			continue
		}
		// the index stores prefixes: the entry belongs to k only if the record there carries k
		pk, err := st.Primary().GetIndexKey(blk)
		if err == nil && bytes.Equal(pk, ik) {
			cur = append(cur, fmt.Sprintf("%d:%d", blk.Offset, blk.Size))
		}
	}
	busy, dead := map[string][]string{}, map[string][]string{}
	ents, _ := os.ReadDir(dir)
	for _, e := range ents {
		var n int
		if _, err := fmt.Sscanf(e.Name(), "d.%d", &n); err != nil || e.Name() != fmt.Sprintf("d.%d", n) {
			continue
		}
		data, _ := os.ReadFile(filepath.Join(dir, e.Name()))
		name := strconv.Itoa(n)
		busy[name], dead[name] = []string{}, []string{}
		pos := 0
		for pos+4 <= len(data) {
			raw := binary.LittleEndian.Uint32(data[pos:])
			sz := int(raw &^ (1 << 31))
			ent := fmt.Sprintf("%d:%d", int64(n)*pmax+int64(pos), sz)
			if raw&(1<<31) != 0 {
				dead[name] = append(dead[name], ent)
			} else {
				busy[name] = append(busy[name], ent)
			}
			pos += 4 + sz
		}
	}
	return map[string]interface{}{"current": cur, "free_file": readFree(filepath.Join(dir, "i.free")), "free_gc": readFree(filepath.Join(dir, "i.free.gc")),
		"busy": busy, "dead": dead, "idx_ref": []int{}, "files": map[string]int64{}}
}

type opT struct {
	Kind string
	Key  []byte
	Val  []byte
	N    int64
}

type threadT struct {
	Name   string
	Op     opT
	resume chan struct{}
	goid   int64
	// outcome
	Status string `json:"status"` // done | stuck
	Res    string `json:"res"`
	Found  bool   `json:"found"`
	Out    string `json:"out"`
	Start  int    `json:"start"`
	End    int    `json:"end"`
	parked bool
	done   bool
	point  string
}

type event struct {
	tid   int
	point string // "" = done
}

func goid() int64 {
	var buf [64]byte
	n := runtime.Stack(buf[:], false)
	f := strings.Fields(string(buf[:n]))
	id, _ := strconv.ParseInt(f[1], 10, 64)
	return id
}

func parseOp(f []string) (opT, error) {
	o := opT{Kind: f[0]}
	var err error
	switch f[0] {
	case "put":
		if o.Key, err = hex.DecodeString(f[1]); err != nil {
			return o, err
		}
		switch f[2] {
		case "nil":
		case "-":
			o.Val = []byte{}
		default:
			o.Val, err = hex.DecodeString(f[2])
		}
	case "get", "has", "size", "remove":
		o.Key, err = hex.DecodeString(f[1])
	case "pgc", "igc":
		o.N, err = strconv.ParseInt(f[1], 10, 64)
	case "flush", "close", "storagesize":
	default:
		err = fmt.Errorf("unknown op %s", f[0])
	}
	return o, err
}

func errClass(err error) string {
	if err == nil {
		return "ROk"
	}
	if err == types.ErrKeyExists {
		return "RExists"
	}
	return "RErr:" + err.Error()
}

func exec(s *store.Store, o opT) (res string, found bool, out string) {
	defer func() {
		if r := recover(); r != nil {
			res = fmt.Sprint("PANIC:", r)
		}
	}()
	switch o.Kind {
	case "put":
		return errClass(s.Put(o.Key, o.Val)), false, ""
	case "get":
		v, f, e := s.Get(o.Key)
		return errClass(e), f, hex.EncodeToString(v)
	case "has":
		f, e := s.Has(o.Key)
		return errClass(e), f, ""
	case "size":
		n, f, e := s.GetSize(o.Key)
		return errClass(e), f, strconv.Itoa(int(n))
	case "remove":
		f, e := s.Remove(o.Key)
		return errClass(e), f, ""
	case "flush":
		return errClass(s.Flush()), false, ""
	case "pgc":
		_, e := s.Primary().(*mhprimary.MultihashPrimary).GC(context.Background(), o.N)
		return errClass(e), false, ""
	case "igc":
		_, _, e := s.Index().VerifGC(context.Background(), o.N != 0)
		if e != nil && strings.Contains(e.Error(), "cannot stat index file") {
			e = nil // a wasted cycle (stale resume cursor), not a failure of a caller
		}
		return errClass(e), false, ""
	case "close":
		return errClass(s.Close()), false, ""
	case "storagesize":
		_, e := s.StorageSize()
		return errClass(e), false, ""
	}
	return "RErr:unknown", false, ""
}

func main() {
	f, err := os.Open(os.Args[1])
	if err != nil {
		panic(err)
	}
	cfg := map[string]string{"bits": "8", "imax": "1048576", "pmax": "1048576", "imm": "0", "burst": "0", "rate": "0", "start": "0", "sync_ms": "3600000", "timeout_ms": "1500", "quiet_ms": "25"}
	var setup []opT
	var threads []*threadT
	var schedule []string
	freeFlush := false
	sc := bufio.NewScanner(f)
	for sc.Scan() {
		fs := strings.Fields(sc.Text())
		if len(fs) == 0 || fs[0][0] == '#' {
			continue
		}
		switch fs[0] {
		case "cfg":
			for _, kv := range fs[1:] {
				p := strings.SplitN(kv, "=", 2)
				cfg[p[0]] = p[1]
			}
		case "setup":
			o, err := parseOp(fs[1:])
			if err != nil {
				panic(err)
			}
			setup = append(setup, o)
		case "thread":
			o, err := parseOp(fs[2:])
			if err != nil {
				panic(err)
			}
			threads = append(threads, &threadT{Name: fs[1], Op: o, resume: make(chan struct{}, 1)})
		case "schedule":
			schedule = append(schedule, fs[1:]...)
		case "free":
			freeFlush = len(fs) > 1 && fs[1] == "flush"
		}
	}
	atoi := func(k string) int { n, _ := strconv.Atoi(cfg[k]); return n }
	dir, _ := os.MkdirTemp("", "conc")
	defer os.RemoveAll(dir)
	opts := []store.Option{store.IndexBitSize(uint8(atoi("bits"))), store.IndexFileSize(uint32(atoi("imax"))), store.PrimaryFileSize(uint32(atoi("pmax"))),
		store.GCInterval(time.Hour), store.SyncInterval(time.Duration(atoi("sync_ms")) * time.Millisecond)}
	if atoi("burst") > 0 {
		opts = append(opts, store.BurstRate(uint64(atoi("burst"))))
	}
	s, err := store.OpenStore(context.Background(), store.MultihashPrimary, filepath.Join(dir, "d"), filepath.Join(dir, "i"), cfg["imm"] == "1", opts...)
	if err != nil {
		panic(err)
	}
	rate, _ := strconv.ParseFloat(cfg["rate"], 64)
	for _, o := range setup {
		if rate > 0 {
			s.VerifSetFlushRate(1e18) // nobody flushes during the sequential setup: keep its writers off the waiting path
		}
		exec(s, o)
	}
	if rate > 0 {
		s.VerifSetFlushRate(rate)
	}
	if cfg["start"] == "1" {
		s.Start() // the periodic flusher (Store.run) runs in the background; its goroutine is not scheduled by this driver
	}
	byName := map[string]int{}
	for i, t := range threads {
		byName[t.Name] = i
	}
	events := make(chan event, 1024)
	var goids sync.Map // goid -> tid
	var free atomic.Bool
	var clock atomic.Int64
	type logged struct {
		T     string `json:"t"`
		Point string `json:"point"`
	}
	var log []logged
	var logMu sync.Mutex
	verifhook.Set(func(point string) {
		v, ok := goids.Load(goid())
		if !ok {
			return
		}
		tid := v.(int)
		if rate > 0 && point == "store.Flush.afterCommit" {
			// keep the measured rate tiny so that the rate-limited path stays enabled
			defer s.VerifSetFlushRate(rate)
		}
		logMu.Lock()
		log = append(log, logged{threads[tid].Name, point})
		logMu.Unlock()
		if free.Load() {
			return
		}
		events <- event{tid, point}
		<-threads[tid].resume
	})
	var wg sync.WaitGroup
	for i, t := range threads {
		wg.Add(1)
		go func(i int, t *threadT) {
			defer wg.Done()
			goids.Store(goid(), i)
			events <- event{i, "start"}
			<-t.resume
			t.Start = int(clock.Add(1))
			logMu.Lock()
			log = append(log, logged{t.Name, "begin"})
			logMu.Unlock()
			t.Res, t.Found, t.Out = exec(s, t.Op)
			t.End = int(clock.Add(1))
			logMu.Lock()
			log = append(log, logged{t.Name, "done"})
			logMu.Unlock()
			events <- event{i, ""}
		}(i, t)
	}
	quiet := time.Duration(atoi("quiet_ms")) * time.Millisecond
	quietTimeouts, unfinishedAtFreeRun := 0, 0
	quietThreads := []string{}
	note := func(e event) {
		t := threads[e.tid]
		if e.point == "" {
			t.done, t.parked = true, false
		} else {
			t.parked, t.point = true, e.point
		}
	}
	// wait until every thread has parked at "start"
	for n := 0; n < len(threads); {
		e := <-events
		note(e)
		n++
	}
	for _, name := range schedule {
		tid, ok := byName[name]
		if !ok {
			continue
		}
		t := threads[tid]
		if t.done || !t.parked {
			continue // finished, or blocked in the background
		}
		t.parked = false
		clock.Add(1)
		t.resume <- struct{}{}
	waitLoop:
		for {
			select {
			case e := <-events:
				note(e)
				if e.tid == tid {
					break waitLoop
				}
			case <-time.After(quiet):
				quietTimeouts++
				quietThreads = append(quietThreads, t.Name)
				break waitLoop // blocked on a real lock or channel; it continues when that is released
			}
		}
	}
	// free run
	for _, t := range threads {
		if !t.done {
			unfinishedAtFreeRun++
		}
	}
	// C12, first clause: a writer that registered for the flush notice (it passed store.flushTick.beforeWait's registration) is released by
	// ANY successful Flush call that began afterwards - without the help of a later flush
	type unrel struct {
		Writer string `json:"writer"`
		Flush  string `json:"flush"`
	}
	var mustRelease []unrel
	logMu.Lock()
	waitAt := map[string]int{}
	beginAt := map[string]int{}
	doneAt := map[string]int{}
	for i, e := range log {
		switch e.Point {
		case "store.flushTick.beforeWait":
			if _, ok := waitAt[e.T]; !ok {
				waitAt[e.T] = i
			}
		case "begin":
			beginAt[e.T] = i
		case "done":
			doneAt[e.T] = i
		}
	}
	logMu.Unlock()
	for _, w := range threads {
		wi, waiting := waitAt[w.Name]
		if !waiting {
			continue
		}
		for _, f := range threads {
			bi, began := beginAt[f.Name]
			_, d := doneAt[f.Name]
			if f.Op.Kind == "flush" && began && d && bi > wi && strings.HasPrefix(f.Res, "ROk") {
				mustRelease = append(mustRelease, unrel{w.Name, f.Name})
				break
			}
		}
	}
	free.Store(true)
	for _, t := range threads {
		if t.parked {
			t.parked = false
			t.resume <- struct{}{}
		}
	}
	// a thread that was still running when the schedule ended (the driver had taken it for blocked) may have looked at the free flag just
	// before it was set and be parking now: whoever reports a yield point from here on is sent on at once
	lateResume := func(e event) {
		if e.point != "" {
			threads[e.tid].resume <- struct{}{}
		}
	}
	var unreleased []unrel
	if len(mustRelease) > 0 {
		grace := time.After(time.Duration(atoi("timeout_ms")) * time.Millisecond)
		pending := mustRelease
	graceLoop:
		for len(pending) > 0 {
			select {
			case <-grace:
				break graceLoop
			case e := <-events:
				lateResume(e)
			case <-time.After(time.Millisecond):
			}
			var still []unrel
			for _, u := range pending {
				if threads[byName[u.Writer]].End == 0 {
					still = append(still, u)
				}
			}
			pending = still
		}
		unreleased = pending
	}
	allDone := make(chan struct{})
	go func() { wg.Wait(); close(allDone) }()
	deadline := time.After(time.Duration(atoi("timeout_ms")) * time.Millisecond)
	nflush := 0
	closing := false
	for _, t := range threads {
		if t.Op.Kind == "close" {
			closing = true
		}
	}
wait:
	for {
		select {
		case <-allDone:
			break wait
		case <-deadline:
			break wait
		case e := <-events:
			lateResume(e)
		case <-time.After(2 * time.Millisecond):
			if freeFlush && !closing {
				if s.Flush() == nil {
					nflush++
				}
			}
		}
	}
	verifhook.Set(nil)
	var stuck []string
	for _, t := range threads {
		select {
		case <-allDone:
			t.Status = "done"
		default:
			// allDone not closed: decide per thread
			if t.End != 0 {
				t.Status = "done"
			} else {
				t.Status = "stuck"
				stuck = append(stuck, t.Name)
			}
		}
	}
	final := map[string]string{}
	finalFlushed := map[string]string{}
	finalReopened := map[string]string{}
	finalCollected := map[string]string{}
	var census map[string]interface{}
	fsckFlushed, fsckReopened := "not run", "not run"
	var drainLeft []string
	if len(stuck) == 0 && !closing {
		seen := map[string]bool{}
		var keys [][]byte
		all := append([]opT{}, setup...)
		for _, t := range threads {
			all = append(all, t.Op)
		}
		for _, o := range all {
			if o.Key != nil && !seen[string(o.Key)] {
				seen[string(o.Key)] = true
				keys = append(keys, o.Key)
			}
		}
		readAll := func(st *store.Store, into map[string]string) {
			for _, k := range keys {
				v, f, e := st.Get(k)
				switch {
				case e != nil:
					into[hex.EncodeToString(k)] = "ERR:" + e.Error()
				case !f:
					into[hex.EncodeToString(k)] = "absent"
				default:
					into[hex.EncodeToString(k)] = "val:" + hex.EncodeToString(v)
				}
			}
		}
		readAll(s, final)
		// the same contents must survive two flushes (data leaves both write pools) and a reopen by rescan
		if rate > 0 {
			s.VerifSetFlushRate(1e18)
		}
		s.Flush()
		s.Put([]byte{0x12, 6, 9, 9, 9, 0xfe, 0xfe, 0xfe}, []byte("x"))
		s.Flush()
		readAll(s, finalFlushed)
		// C07 over schedules: the independent reader of the formats judges the real files now that everything has ended and both pools are written
		fsckOf := func(st *store.Store) string {
			tbl := st.Index().VerifBuckets()
			t := make([]uint64, len(tbl))
			for i, p := range tbl {
				t[i] = uint64(p)
			}
			return fsck.Check(dir, fsck.Config{Bits: uint8(atoi("bits")), Imax: uint32(atoi("imax")), Pmax: uint32(atoi("pmax"))}, t)
		}
		fsckFlushed = fsckOf(s)
		if err := s.Close(); err != nil {
			finalReopened["close"] = "ERR:" + err.Error()
		} else {
			os.Remove(filepath.Join(dir, "i.buckets"))
			s2, err := store.OpenStore(context.Background(), store.MultihashPrimary, filepath.Join(dir, "d"), filepath.Join(dir, "i"), cfg["imm"] == "1", opts...)
			if err != nil {
				finalReopened["open"] = "ERR:" + err.Error()
			} else {
				readAll(s2, finalReopened)
				fsckReopened = fsckOf(s2)
				census = freeCensus(dir, s2, append(keys, []byte{0x12, 6, 9, 9, 9, 0xfe, 0xfe, 0xfe}), int64(atoi("pmax")))
				// and two further primary GC cycles (the second applies what the first one freed): a location that was freed although
				// the index names it is destroyed now, and shows as a lost key
				if mp, ok := s2.Primary().(*mhprimary.MultihashPrimary); ok {
					mp.GC(context.Background(), 50)
					s2.Flush()
					mp.GC(context.Background(), 50)
					readAll(s2, finalCollected)
					if cfg["drain"] == "1" {
						// C11 over schedules: fillers push the write position at least one file further, then everything is removed and
						// flushed; after a few cycles every primary file but the current one must be empty or unlinked
						drainLeft = []string{}
						var fill [][]byte
						for i := byte(0); i < 12; i++ {
							fill = append(fill, []byte{0x12, 6, 8, 8, 8, 0xf0, i, i})
						}
						for _, k := range fill {
							s2.Put(k, bytes.Repeat([]byte{'f'}, 18))
						}
						s2.Flush()
						for _, k := range append(append([][]byte{}, keys...), append(fill, []byte{0x12, 6, 9, 9, 9, 0xfe, 0xfe, 0xfe})...) {
							s2.Remove(k)
						}
						s2.Flush()
						for i := 0; i < 4; i++ {
							mp.GC(context.Background(), 50)
							s2.Flush()
						}
						last := -1
						sizes := map[int]int64{}
						ents, _ := os.ReadDir(dir)
						for _, e := range ents {
							var n int
							if _, err := fmt.Sscanf(e.Name(), "d.%d", &n); err != nil || e.Name() != fmt.Sprintf("d.%d", n) {
								continue
							}
							if fi, err := e.Info(); err == nil {
								sizes[n] = fi.Size()
							}
							if n > last {
								last = n
							}
						}
						for n, sz := range sizes {
							if n != last && sz != 0 {
								drainLeft = append(drainLeft, fmt.Sprintf("d.%d:%d", n, sz))
							}
						}
					}
				}
				s2.Close()
			}
		}
	}
	type tout struct {
		Name   string `json:"name"`
		Op     string `json:"op"`
		Key    string `json:"key,omitempty"`
		Val    string `json:"val,omitempty"`
		Status string `json:"status"`
		Res    string `json:"res"`
		Found  bool   `json:"found"`
		Out    string `json:"out"`
		Start  int    `json:"start"`
		End    int    `json:"end"`
	}
	var outs []tout
	for _, t := range threads {
		outs = append(outs, tout{t.Name, t.Op.Kind, hex.EncodeToString(t.Op.Key), hex.EncodeToString(t.Op.Val), t.Status, t.Res, t.Found, t.Out, t.Start, t.End})
	}
	var sb bytes.Buffer
	json.NewEncoder(&sb).Encode(map[string]interface{}{"threads": outs, "stuck": stuck, "events": log, "final": final, "final_flushed": finalFlushed, "final_reopened": finalReopened, "final_collected": finalCollected, "census": census, "fsck_flushed": fsckFlushed, "fsck_reopened": fsckReopened, "drain_leftover": drainLeft, "flushes_in_free_run": nflush,
		"quiet_timeouts": quietTimeouts, "quiet_threads": quietThreads, "unfinished_at_free_run": unfinishedAtFreeRun, "must_release": mustRelease, "unreleased": unreleased})
	os.Stdout.Write(sb.Bytes())
	if len(stuck) > 0 {
		os.Exit(3) // leave the blocked goroutines behind
	}
}
