module verifharness

go 1.25

require (
	github.com/ipfs/go-block-format v0.0.3
	github.com/ipfs/go-cid v0.3.2
	github.com/ipfs/go-ipld-format v0.4.0
	github.com/ipld/go-storethehash v0.0.0
	github.com/multiformats/go-multihash v0.2.1
)

require (
	github.com/gogo/protobuf v1.3.2 // indirect
	github.com/google/uuid v1.1.1 // indirect
	github.com/hashicorp/golang-lru v0.5.4 // indirect
	github.com/ipfs/bbloom v0.0.4 // indirect
	github.com/ipfs/go-datastore v0.5.0 // indirect
	github.com/ipfs/go-ipfs-blockstore v1.2.0 // indirect
	github.com/ipfs/go-ipfs-ds-help v1.1.0 // indirect
	github.com/ipfs/go-ipfs-util v0.0.2 // indirect
	github.com/ipfs/go-log v0.0.1 // indirect
	github.com/ipfs/go-log/v2 v2.5.1 // indirect
	github.com/ipfs/go-metrics-interface v0.0.1 // indirect
	github.com/jbenet/goprocess v0.1.4 // indirect
	github.com/klauspost/cpuid/v2 v2.0.9 // indirect
	github.com/mattn/go-colorable v0.1.2 // indirect
	github.com/mattn/go-isatty v0.0.14 // indirect
	github.com/minio/sha256-simd v1.0.0 // indirect
	github.com/mr-tron/base58 v1.2.0 // indirect
	github.com/multiformats/go-base32 v0.0.3 // indirect
	github.com/multiformats/go-base36 v0.1.0 // indirect
	github.com/multiformats/go-multibase v0.0.3 // indirect
	github.com/multiformats/go-varint v0.0.6 // indirect
	github.com/opentracing/opentracing-go v1.1.0 // indirect
	github.com/spaolacci/murmur3 v1.1.0 // indirect
	github.com/whyrusleeping/go-logging v0.0.0-20170515211332-0457bb6b88fc // indirect
	go.uber.org/atomic v1.7.0 // indirect
	go.uber.org/multierr v1.6.0 // indirect
	go.uber.org/zap v1.19.1 // indirect
	golang.org/x/crypto v0.0.0-20220525230936-793ad666bf5e // indirect
	golang.org/x/sys v0.0.0-20210630005230-0f9fa26af87c // indirect
	lukechampine.com/blake3 v1.1.6 // indirect
)

replace github.com/ipld/go-storethehash => /repo
