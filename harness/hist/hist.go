// Package hist parses the history files shared by all drivers.
//
//	cfg primary=mh bits=8 imax=40 pmax=60 imm=0
//	put HEXKEY HEXVAL     (HEXVAL "-" = empty, "nil" = nil slice)
//	get|has|size|remove HEXKEY
//	flush
//	igc 0|1               one index GC cycle (scan-free flag)
//	pgc LOWUSE            one primary GC cycle
//	reopen 0|1            Close, then OpenStore with the same options (1: bucket snapshot deleted first)
//	rebits N              Close, then OpenStore with IndexBitSize(N)
//	iter                  whole-store iteration
//	crash N               (sthdrive) cut a crash image inside the next flush after N mod (records+1) index records
//	pgcb LOWUSE BUDGET    primary GC cycle whose context fails after BUDGET successful ctx.Err() polls
//	igcb SCANFREE BUDGET  the same for an index GC cycle
//	pgcl LOWUSE BUDGET    primary GC cycle with a time limit as the production collector applies it: the budget starts to count after the freelist has been applied
//	at POINT put K V      run the inner operation inline at yield point POINT of the next operation
//	missize               Close; opens with other file-size limits must be refused; reopen
//
// Lines starting with '#' are comments.
package hist

import (
	"bufio"
	"encoding/hex"
	"fmt"
	"os"
	"strconv"
	"strings"
)

type Config struct {
	Primary          string
	Bits             uint8
	Imax, Pmax       uint32
	Imm              bool
	Extra            map[string]string
}

type Op struct {
	Kind  string
	Key   []byte
	Val   []byte
	N     int64
	B     int64
	Point string
	Inner string
}

type History struct {
	Cfg  Config
	Ops  []Op
	Path string
}

func Parse(path string) (*History, error) {
	f, err := os.Open(path)
	if err != nil {
		return nil, err
	}
	defer f.Close()
	h := &History{Path: path, Cfg: Config{Primary: "mh", Bits: 24, Imax: 1 << 30, Pmax: 1 << 30, Extra: map[string]string{}}}
	sc := bufio.NewScanner(f)
	sc.Buffer(make([]byte, 1<<20), 1<<26)
	ln := 0
	for sc.Scan() {
		ln++
		line := strings.TrimSpace(sc.Text())
		if line == "" || line[0] == '#' {
			continue
		}
		fs := strings.Fields(line)
		bad := func(e interface{}) error { return fmt.Errorf("%s:%d: %v", path, ln, e) }
		switch fs[0] {
		case "cfg":
			for _, kv := range fs[1:] {
				p := strings.SplitN(kv, "=", 2)
				if len(p) != 2 {
					return nil, bad("bad cfg item " + kv)
				}
				n, _ := strconv.ParseUint(p[1], 10, 64)
				switch p[0] {
				case "primary":
					h.Cfg.Primary = p[1]
				case "bits":
					h.Cfg.Bits = uint8(n)
				case "imax":
					h.Cfg.Imax = uint32(n)
				case "pmax":
					h.Cfg.Pmax = uint32(n)
				case "imm":
					h.Cfg.Imm = n != 0
				default:
					h.Cfg.Extra[p[0]] = p[1]
				}
			}
		case "put":
			if len(fs) != 3 {
				return nil, bad("put needs key and value")
			}
			k, err := hex.DecodeString(fs[1])
			if err != nil {
				return nil, bad(err)
			}
			var v []byte
			switch fs[2] {
			case "nil":
				v = nil
			case "-":
				v = []byte{}
			default:
				if v, err = hex.DecodeString(fs[2]); err != nil {
					return nil, bad(err)
				}
			}
			h.Ops = append(h.Ops, Op{Kind: "put", Key: k, Val: v})
		case "get", "has", "size", "remove":
			if len(fs) != 2 {
				return nil, bad(fs[0] + " needs a key")
			}
			k, err := hex.DecodeString(fs[1])
			if err != nil {
				return nil, bad(err)
			}
			h.Ops = append(h.Ops, Op{Kind: fs[0], Key: k})
		case "flush", "iter", "close", "missize":
			h.Ops = append(h.Ops, Op{Kind: fs[0]})
		case "pgcb", "igcb", "pgcl":
			// budgeted GC cycle: pgcb LOWUSE BUDGET / igcb SCANFREE BUDGET (BUDGET = number of ctx.Err() polls that succeed)
			if len(fs) != 3 {
				return nil, bad(fs[0] + " needs two numbers")
			}
			n, err := strconv.ParseInt(fs[1], 10, 64)
			if err != nil {
				return nil, bad(err)
			}
			b, err := strconv.ParseInt(fs[2], 10, 64)
			if err != nil {
				return nil, bad(err)
			}
			h.Ops = append(h.Ops, Op{Kind: fs[0], N: n, B: b})
		case "at":
			// at YIELDPOINT <put|remove|get ...> : run the inner operation inline at that yield point of the NEXT operation
			if len(fs) < 4 {
				return nil, bad("at needs a yield point and an operation")
			}
			k, err := hex.DecodeString(fs[3])
			if err != nil {
				return nil, bad(err)
			}
			op := Op{Kind: "at", Point: fs[1], Inner: fs[2], Key: k}
			if fs[2] == "put" {
				if len(fs) != 5 {
					return nil, bad("at ... put needs key and value")
				}
				switch fs[4] {
				case "nil":
				case "-":
					op.Val = []byte{}
				default:
					if op.Val, err = hex.DecodeString(fs[4]); err != nil {
						return nil, bad(err)
					}
				}
			}
			h.Ops = append(h.Ops, op)
		case "igc", "pgc", "reopen", "rebits", "crash":
			if len(fs) != 2 {
				return nil, bad(fs[0] + " needs a number")
			}
			n, err := strconv.ParseInt(fs[1], 10, 64)
			if err != nil {
				return nil, bad(err)
			}
			h.Ops = append(h.Ops, Op{Kind: fs[0], N: n})
		default:
			return nil, bad("unknown op " + fs[0])
		}
	}
	return h, sc.Err()
}
