"""Shared machinery of the /verif checks: building, running the drivers, replaying on the model, evidence."""
import fcntl, hashlib, json, os, random, re, shutil, subprocess, sys, tempfile, time
from concurrent.futures import ThreadPoolExecutor

VERIF = os.path.dirname(os.path.dirname(os.path.abspath(__file__)))
REPO = os.environ.get("VERIF_REPO", "/repo")
COQ = os.path.join(VERIF, "coq")
HARNESS = os.path.join(VERIF, "harness")
BUILD = os.path.join(VERIF, "build")
BIN = os.path.join(BUILD, "bin")
NCPU = min(16, os.cpu_count() or 4)

GOENV = dict(os.environ, GOFLAGS="-mod=mod", GOPROXY="off")
for k in ("GOTOOLCHAIN", "GOSUMDB"):
    GOENV.pop(k, None)   # both break the cached go1.25 toolchain switch in this sandbox


class CheckError(Exception):
    """The machinery itself could not run (build failure, tool missing). Not a property verdict."""


def sh(cmd, cwd=None, env=None, timeout=None, check=True):
    p = subprocess.run(cmd, cwd=cwd, env=env, timeout=timeout, stdout=subprocess.PIPE, stderr=subprocess.STDOUT, text=True,
                       shell=isinstance(cmd, str))
    if check and p.returncode != 0:
        raise CheckError("command failed (%d): %s\n%s" % (p.returncode, cmd, p.stdout[-4000:]))
    return p


class Lock:
    def __init__(self, name):
        os.makedirs(BUILD, exist_ok=True)
        self.path = os.path.join(BUILD, name + ".lock")
    def __enter__(self):
        self.f = open(self.path, "w")
        fcntl.flock(self.f, fcntl.LOCK_EX)
        return self
    def __exit__(self, *a):
        fcntl.flock(self.f, fcntl.LOCK_UN)
        self.f.close()


# ---------------------------------------------------------------- Coq
def coq_build():
    """Full .vo build of the development (a no-op when up to date). Returns the make command line."""
    cmd = "coq_makefile -f _CoqProject -o Makefile.coq >/dev/null 2>&1 && timeout 3000 make -f Makefile.coq -j%d" % NCPU
    with Lock("coq"):
        p = sh(cmd, cwd=COQ, check=False)
    if p.returncode != 0:
        raise CheckError("Coq build failed:\n" + p.stdout[-6000:])
    return "cd coq && " + cmd


FORBIDDEN = r"\b(Admitted|admit|Axiom|Axioms|Parameter|Parameters|Conjecture|Conjectures|Hypothesis|Hypotheses|Variable|Variables)\b|Unset\s+Guard|Unset\s+Positivity|Unset\s+Universe|bypass_check|type-in-type|impredicative-set|Admit\s+Obligations|native_compute"

def grep_gate():
    """No Admitted/admit/Axiom/Parameter/... anywhere; Variable/Hypothesis only inside a Section."""
    bad = []
    for root in ("theories", "properties", "gen"):
        d = os.path.join(COQ, root)
        if not os.path.isdir(d):
            continue
        for fn in sorted(os.listdir(d)):
            if not fn.endswith(".v"):
                continue
            depth = 0
            txt = open(os.path.join(d, fn)).read()
            txt = re.sub(r"\(\*.*?\*\)", lambda m: "\n" * m.group(0).count("\n"), txt, flags=re.S)
            for ln, line in enumerate(txt.split("\n"), 1):
                if re.match(r"\s*Section\b", line):
                    depth += 1
                if re.match(r"\s*End\b", line) and depth > 0:
                    depth -= 1
                for m in re.finditer(FORBIDDEN, line):
                    w = m.group(0)
                    if w.split()[0] in ("Variable", "Variables", "Hypothesis", "Hypotheses") and depth > 0:
                        continue
                    bad.append("%s/%s:%d: %s" % (root, fn, ln, w))
    return bad


def print_assumptions(prop_file):
    """Compile coq/properties/<file>.v and return {theorem: assumptions text}."""
    src = os.path.join(COQ, "properties", prop_file)
    p = sh(["timeout", "900", "coqc", "-Q", "theories", "STH", "-Q", "properties", "STHProps", src], cwd=COQ, check=False)
    if p.returncode != 0:
        return None, p.stdout[-4000:]
    txt = open(src).read()
    names = re.findall(r"^Print Assumptions (\w+)\.", txt, flags=re.M)
    # coqc prints one block per Print Assumptions, in order
    blocks = re.split(r"(?=Closed under the global context|Axioms:)", p.stdout)
    blocks = [b.strip() for b in blocks if b.strip().startswith(("Closed under", "Axioms:"))]
    out = {}
    for i, n in enumerate(names):
        out[n] = blocks[i] if i < len(blocks) else "<no output>"
    return out, p.stdout


# ---------------------------------------------------------------- Go
def go_build(tools, race=False):
    """Build harness commands from /repo's CURRENT working tree (tag verif). Always rebuilt (go's cache makes it cheap)."""
    os.makedirs(BIN, exist_ok=True)
    with Lock("go"):
        shutil.copy(os.path.join(REPO, "go.sum"), os.path.join(HARNESS, "go.sum"))
        mod = open(os.path.join(HARNESS, "go.mod")).read()
        want = "replace github.com/ipld/go-storethehash => " + REPO
        mod2 = re.sub(r"replace github.com/ipld/go-storethehash => \S+", want, mod)
        if mod2 != mod:
            open(os.path.join(HARNESS, "go.mod"), "w").write(mod2)
        for t in tools:
            out = os.path.join(BIN, t + ("-race" if race else ""))
            cmd = ["go", "build", "-tags", "verif"] + (["-race"] if race else []) + ["-o", out, "./cmd/" + t]
            p = sh(cmd, cwd=HARNESS, env=GOENV, check=False, timeout=1200)
            if p.returncode != 0:
                raise CheckError("go build of %s failed (does /repo still compile with -tags verif?):\n%s" % (t, p.stdout[-4000:]))
    return "cd harness && go build -tags verif ./cmd/{%s}  (replace => %s)" % (",".join(tools), REPO)


def repo_rev():
    p = sh("git -C %s rev-parse --short HEAD; git -C %s status --porcelain | wc -l" % (REPO, REPO), check=False)
    parts = p.stdout.split()
    return {"head": parts[0] if parts else "?", "dirty_files": int(parts[1]) if len(parts) > 1 else -1}


# ---------------------------------------------------------------- running histories and replaying them on the model
def workdir(prop):
    d = os.path.join(BUILD, "work", prop)
    shutil.rmtree(d, ignore_errors=True)
    os.makedirs(d)
    return d


def chunks(l, n):
    k = max(1, (len(l) + n - 1) // n)
    return [l[i:i + k] for i in range(0, len(l), k)]


def run_sthdrive(hist_paths, wd, shards=NCPU, extra_args=()):
    """Run histories on the real store. Returns (list of (hist_path, coq_term or ''), list of json records)."""
    parts = chunks(hist_paths, shards)
    def one(i):
        coq = os.path.join(wd, "part%d.coq" % i); tr = os.path.join(wd, "part%d.jsonl" % i)
        p = sh([os.path.join(BIN, "sthdrive"), "-coq", coq, "-trace", tr] + list(extra_args) + parts[i], check=False, timeout=3000,
               env=dict(os.environ, GOLOG_LOG_LEVEL="fatal", TMPDIR=wd))
        if p.returncode != 0:
            raise CheckError("sthdrive failed:\n" + p.stdout[-3000:])
        return coq, tr
    with ThreadPoolExecutor(len(parts)) as ex:
        outs = list(ex.map(one, range(len(parts))))
    terms, recs = [], []
    for coq, tr in outs:
        txt = open(coq).read()
        for m in re.finditer(r"\(\*CASE (.*?)\*\)\n(.*?)(?=\(\*CASE |\Z)", txt, flags=re.S):
            terms.append((m.group(1), m.group(2).strip()))
        with open(tr) as f:
            for line in f:
                recs.append(json.loads(line))
    return terms, recs


CASES_HEADER = ("From STH Require Import Lex Index Index2 Index3 Store Check Translate Crash Budget Replay.\n"
                "From Coq Require Import List NArith. Import ListNotations. Open Scope N_scope.\n")

def coq_replay(terms, wd, shards=NCPU, header=CASES_HEADER, ctor_list="case5", fn="mismatches5"):
    """terms: list of (name, coq_term). Returns list of (name, first_mismatching_observation_index)."""
    terms = [t for t in terms if t[1]]
    if not terms:
        return [], 0.0
    parts = chunks(terms, shards)
    t0 = time.time()
    def one(i):
        src = os.path.join(wd, "cases%d.v" % i)
        with open(src, "w") as f:
            f.write(header)
            f.write("Definition cases : list %s := [\n" % ctor_list)
            f.write(";\n".join(t[1] for t in parts[i]))
            f.write("\n].\nDefinition result := Eval vm_compute in %s cases.\nPrint result.\n" % fn)
        p = sh(["timeout", "3000", "coqc", "-Q", os.path.join(COQ, "theories"), "STH", src], cwd=wd, check=False)
        if p.returncode != 0:
            raise CheckError("coqc on %s failed:\n%s" % (src, p.stdout[-3000:]))
        m = re.search(r"result\s*=\s*(.*?)\s*:\s*list", p.stdout, flags=re.S)
        if not m:
            raise CheckError("cannot parse coqc output:\n" + p.stdout[-2000:])
        pairs = re.findall(r"\(\s*(\d+)\s*,\s*(\d+)\s*\)", m.group(1))
        return [(parts[i][int(a)][0], int(b)) for a, b in pairs]
    with ThreadPoolExecutor(len(parts)) as ex:
        res = list(ex.map(one, range(len(parts))))
    return [x for r in res for x in r], time.time() - t0


# ---------------------------------------------------------------- evidence
def write_evidence(prop, tier, seed, coverage, wall, violations, assumptions):
    evdir = os.environ.get("VERIF_EVIDENCE_DIR", os.path.join(VERIF, "evidence"))   # the seeded-change tools redirect it
    os.makedirs(evdir, exist_ok=True)
    ev = {"property_id": prop, "tier": tier, "seed": int(seed), "level": "proof", "coverage": coverage,
          "assumptions": assumptions, "wall_s": round(wall, 2), "violations": int(violations)}
    with open(os.path.join(evdir, prop + ".json"), "w") as f:
        json.dump(ev, f, indent=1, sort_keys=True)
        f.write("\n")


def save_replay(prop, name, text):
    d = os.path.join(VERIF, "build", "replay", prop)
    os.makedirs(d, exist_ok=True)
    p = os.path.join(d, name)
    with open(p, "w") as f:
        f.write(text)
    return p
