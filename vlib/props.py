"""Per-property check definitions and the common flow."""
import collections, hashlib, json, os, random, re, shutil, subprocess, time

from . import common as C
from . import gen, oracles

TRUSTED_BASE = [
    "Coq 8.16.1 kernel (coqc, full .vo build; vm_compute used, native_compute not used)",
    "no axioms: every property theorem is 'Closed under the global context' (Print Assumptions, re-run on every check)",
    "hand-written Gallina model coq/theories/Store.v (+ Translate.v, Crash.v, FileCache.v, RateLimit.v, Lockset.v) tied to /repo by replaying "
    "implementation traces on the model inside Coq (coq/theories/Replay.v; cases.v + vm_compute; no extraction, hence no Extract directives)",
    "Go harness (harness/cmd/*) built from /repo's working tree with -tags verif; Python orchestration, generators and oracles (vlib/)",
    "modelled, not verified: OS file semantics (a completed syscall survives a process crash), Go runtime and scheduler, bufio/os.File, "
    "multihash/CID parsing beyond the one-byte-varint form, JSON headers, time",
]


class Spec:
    def __init__(self, **kw):
        self.prop_file = None          # coq/properties/<file>
        self.weights = None            # generator weights
        self.gen_kw = {}
        self.quick_n = 200
        self.thorough_n = 4000
        self.keep = ("res",)           # which observations take part in the correspondence: res, tbl, img, crash
        self.oracle = True             # evaluate the map / crash oracle on the trace
        self.aspects = ("map",)        # which oracles of the implementation trace belong to this property: map, paths, crash, dir, sizes
        self.witnesses = []            # regression scenarios of harness/cmd/witness
        self.nontrivial = None         # function(history_text, recs) -> bool
        self.rule = ""
        self.tools = ["sthdrive", "witness"]
        self.extra = None              # function(ctx) for property-specific parts
        self.__dict__.update(kw)


def _nontrivial_shared_bucket(text, recs):
    """>= 2 keys written whose digests share bucket byte and at least one more leading byte, and >= 1 flush between writes."""
    keys = set()
    flush_between = False
    seen_put = False
    for line in text.split("\n"):
        f = line.split()
        if not f:
            continue
        if f[0] == "put":
            keys.add(bytes.fromhex(f[1])[2:])
            if seen_put == "flushed":
                flush_between = True
            if not seen_put:
                seen_put = True
        elif f[0] == "flush" and seen_put:
            seen_put = "flushed"
    ks = sorted(keys)
    share = any(a[:2] == b[:2] for i, a in enumerate(ks) for b in ks[i + 1:])
    return share and flush_between


CHECKS = {}

def _cid_check(ctx):
    """C01 "for every primary type": histories on a store with the CID primary (harness/cmd/ciddrive: every multihash key is presented as a
    CIDv1 whose codec alternates from call to call), judged by the map oracle.  The Coq model covers the multihash primary only."""
    prop, tier, wd, rng = ctx["prop"], ctx["tier"], ctx["wd"], ctx["rng"]
    C.go_build(["ciddrive"])
    n = 60 if tier == "quick" else 3000
    if ctx.get("replay"):
        if not ctx["replay"].endswith(".cidhist"):
            return [], {}
        texts = [open(ctx["replay"]).read()]
    else:
        texts = [gen.history(rng, dict(put=36, get=14, has=4, size=5, remove=12, flush=12, iter=3, reopen=4, igc=0, pgc=0),
                             pmax_choices=(1 << 30,), imax_choices=(1, 40, 100, 300, 1 << 30)).replace("primary=mh", "primary=cid", 1) for _ in range(n)]
    d = os.path.join(wd, "cid"); os.makedirs(d, exist_ok=True)
    from concurrent.futures import ThreadPoolExecutor
    def one(i):
        p = os.path.join(d, "c%04d.cidhist" % i)
        open(p, "w").write(texts[i])
        r = subprocess.run([os.path.join(C.BIN, "ciddrive"), p], env=dict(os.environ, GOLOG_LOG_LEVEL="fatal"), stdout=subprocess.PIPE, stderr=subprocess.PIPE, text=True, timeout=300)
        if r.returncode != 0:
            return texts[i], None, (r.stdout[-300:] + r.stderr[-600:])
        return texts[i], [json.loads(l) for l in r.stdout.split("\n") if l.strip()], ""
    with ThreadPoolExecutor(C.NCPU) as ex:
        res = list(ex.map(one, range(len(texts))))
    viol, nontriv = [], 0
    for t, recs, raw in res:
        bad = (-1, "ciddrive failed (a panic of the library counts as a failure of the call): " + raw) if recs is None else eval_oracle(t, recs, ("map",))
        if recs and _count_ops(t, ("put",)) >= 3 and _count_ops(t, ("flush", "reopen")) >= 1:
            nontriv += 1
        if bad and len(viol) < 3:
            rp = C.save_replay(prop, "cid-%s.cidhist" % hashlib.sha1(t.encode()).hexdigest()[:10],
                               "# C01 fails on the implementation with the CID primary: op %d: %s\n# replay: cd /verif && ./check C01 --replay <this file>\n%s" % (bad[0], bad[1], t))
            viol.append(("CID primary, history op %d: %s" % bad, rp, True))
    return viol, {"evaluations": len(texts), "distinct_nontrivial": nontriv, "histories_on_the_cid_primary": len(texts),
                  "samples": [{"cid_history": texts[-1].strip().split("\n")[:12]}],
                  "cid_rule": "the same history generator, run on a store opened with the CID primary (single primary file, no primary GC); keys are presented as CIDv1 "
                              "raw / dag-pb alternately (CIDs that differ in codec address one block); map oracle incl. iteration and reopen; non-trivial = >= 3 puts and a flush or reopen"}


CHECKS["C01"] = Spec(
    prop_file="C01.v",
    tools=["sthdrive", "witness", "ciddrive"],
    extra=_cid_check,
    weights=dict(put=34, get=14, has=4, size=5, remove=12, flush=12, iter=3, igc=2, pgc=3, reopen=2),
    keep=("res",),
    witnesses=["F1-empty-value-after-foreign-block", "F2-nil-value-read-before-flush"],
    nontrivial=_nontrivial_shared_bucket,
    rule="histories from one PRNG (VERIF_SEED): 4-11 multihash keys over a 2-letter alphabet sharing bucket bits and leading bytes, "
         "values of 0-11 bytes incl. nil/empty, bits in {8,9,12,16}, file limits in {1,40/60,100,300,2^30}, immutable 1 in 4; "
         "non-trivial = >= 2 written keys share the first two digest bytes and a flush separates two writes; distinct = by history text",
)

_KEYS_RULE = ("histories from one PRNG (VERIF_SEED): 4-11 multihash keys over a 2-letter alphabet sharing bucket bits and leading bytes, "
              "values of 0-11 bytes incl. nil/empty, bits in {8,9,12,16}, file limits in {1,40/60,100,300,2^30}, immutable 1 in 4; ")

def _count_ops(text, kinds):
    return sum(1 for l in text.split("\n") if l.split() and l.split()[0] in kinds)

CHECKS["C02"] = Spec(
    prop_file="C02.v",
    weights=dict(put=34, get=12, has=3, size=3, remove=12, flush=10, reopen=9, igc=4, pgc=4, iter=1),
    gen_kw=dict(sweep_p=0.6),
    igc_merge_p=0.12,
    keep=("res", "tbl"),
    aspects=("map", "paths"),
    witnesses=["F8-close-writes-index-before-primary", "F17-close-vs-relocation"],
    tools=["sthdrive", "witness", "closedrive"],
    skeleton="C17",          # the model's Close is one step with the collectors stopped: Close must stop them BEFORE it writes (wf_C17)
    extra=lambda ctx: _close_check(ctx),
    nontrivial=lambda t, r: _count_ops(t, ("reopen",)) >= 1 and _count_ops(t, ("put",)) >= 3 and _count_ops(t, ("remove", "pgc", "igc")) >= 1,
    rule=_KEYS_RULE + "Close+reopen at random positions through the snapshot path, the rescan path (snapshot deleted) and with a truncated snapshot; "
         "at every reopen the OTHER path is opened on a copy and bucket tables + every Get are compared; Close is called twice; "
         "non-trivial = >= 1 reopen, >= 3 puts and >= 1 removal or GC cycle; distinct = by history text",
)
CHECKS["C04"] = Spec(
    prop_file="C04.v",
    weights=dict(put=34, get=10, has=2, size=2, remove=14, flush=12, igc=8, pgc=12, reopen=2, iter=1),
    gen_kw=dict(sweep_p=0.7, pmax_choices=(1, 60, 100, 100, 300, 300), imax_choices=(1, 40, 100, 300)),
    igc_merge_p=0.1,
    # index-GC heavy variant: many buckets, one flush per write or two, several records per index file, repeated cycles
    variants=[(0.35, dict(weights=dict(put=30, remove=8, flush=30, igc=22, get=6, pgc=3, reopen=2),
                          gen_kw=dict(sweep_p=0.5, imax_choices=(64, 100, 150, 200), pmax_choices=(300, 1 << 30), first=(3, 4, 5, 6, 7, 8), nops=(30, 80)))),
              # time-limited cycles: stopped after 0-8 context polls, resumed by later (limited or unlimited) cycles; all replayed on the model
              (0.3, dict(weights=dict(put=34, remove=12, flush=18, igc=5, igcb=14, pgc=4, pgcl=9, pgcb=1, get=6, reopen=2),
                         gen_kw=dict(sweep_p=0.5, imax_choices=(40, 64, 100, 150), pmax_choices=(60, 100, 300), nops=(30, 80))))],
    keep=("res", "tbl", "img"),
    witnesses=["F3-relocate-two-records", "F4-freelist-entry-for-unflushed-block", "F5-freelist-entry-in-missing-file",
               "F11-stale-record-relocated-after-crash", "F16-relocation-vs-writer"],
    nontrivial=lambda t, r: _count_ops(t, ("pgc", "igc", "igcb", "pgcl")) >= 2 and _count_ops(t, ("put",)) >= 4 and _count_ops(t, ("flush",)) >= 1,
    rule=_KEYS_RULE + "index GC (both scan-free flags) and primary GC (low-use 10..94) at random positions incl. between a write and its flush, a third of the histories with "
         "time-limited cycles (igcb: the context fails after 0-8 polls; pgcl: the limit starts after the freelist has been applied, as in production) that later cycles resume, "
         "small file limits so several non-current files exist; every key read back after most cycles; bucket table and byte images of all "
         "files compared with the model after every cycle; non-trivial = >= 2 GC cycles, >= 4 puts, >= 1 flush; distinct = by history text",
)
def _c09_crash(ctx):
    """C09, last clause: a re-bucketing that is interrupted never leaves a store that opens with fewer keys.  Histories that end in one or two
    re-bucketings run in a child under strace; SIGKILL on entering every file-system call behind a mutating one (the directory operations of
    the replacement are always among the points); each image is opened with the NEW bit size by the real code and every key read back."""
    from . import crash
    prop, tier, wd, rng = ctx["prop"], ctx["tier"], ctx["wd"], ctx["rng"]
    C.go_build(["crashdrive"])
    nh, maxp = (1, 30) if tier == "quick" else (10, None)
    hists = []
    cdir = os.path.join(C.VERIF, "corpus", prop)
    if os.path.isdir(cdir):
        hists += [os.path.join(cdir, fn) for fn in sorted(os.listdir(cdir)) if fn.endswith(".crashhist")]
    if ctx.get("replay"):
        hists, nh = ([ctx["replay"]] if ctx["replay"].endswith(".crashhist") else []), 0
    cw = os.path.join(wd, "crashenum"); os.makedirs(cw, exist_ok=True)
    for i in range(nh):
        bits = rng.choice((8, 9, 12))
        ks = [k.hex() for k in gen.mk_keys(rng, rng.randint(4, 7), first=(5, 6, 7))]
        lines = ["cfg primary=mh bits=%d imax=%d pmax=%d imm=0" % (bits, rng.choice((40, 100, 1 << 20)), rng.choice((60, 1 << 20)))]
        for k in ks:
            lines.append("put %s %s" % (k, gen.hexv(gen.rand_val(rng) or b"v")))
            if rng.random() < 0.4:
                lines.append("flush")
        lines.append("remove %s" % rng.choice(ks))
        lines.append("flush")
        for nb in rng.sample([b for b in (8, 9, 12, 16) if b != bits], rng.randint(1, 2)):
            lines.append("rebits %d" % nb)
            lines += ["put %s %s" % (rng.choice(ks), gen.hexv(gen.rand_val(rng) or b"w")), "flush"]
        lines.append("close")
        p = os.path.join(cw, "g%03d.crashhist" % i)
        open(p, "w").write("\n".join(lines) + "\n")
        hists.append(p)
    viol, points, torn, calls = [], 0, 0, 0
    samples = []
    for hp in hists:
        n, nt, fails, nc = crash.enumerate_history(hp, cw, rng, max_points=maxp, torn=(tier != "quick"))
        points += n; torn += nt; calls += nc
        if len(samples) < 2:
            samples.append({"crash_history": open(hp).read().strip().split("\n")[:16], "kill_points": n, "torn_variants": nt})
        for f in fails[:2]:
            txt = open(hp).read()
            rp = C.save_replay(prop, "crash-%s.crashhist" % hashlib.sha1((txt + f["what"]).encode()).hexdigest()[:10],
                               "# %s fails on the implementation: %s\n# crash point: %s\n# directory image left by the crash: %s\n"
                               "# replay: cd /verif && ./check %s --replay <this file>   (re-enumerates every crash point of this history)\n%s"
                               % (prop, f["bad"], f["what"], f["image"], prop, txt))
            viol.append(("crash enumeration of a re-bucketing: %s [%s]" % (f["bad"], f["what"]), rp, True))
        if viol:
            break
    return viol, {"evaluations": points + torn, "distinct_nontrivial": points, "crash_points_inside_histories_with_rebucketing": points, "torn_write_variants": torn,
                  "file_system_calls_traced": calls, "crash_histories": len(hists), "samples": samples,
                  "crash_rule": "histories with 4-7 keys in three buckets, a removal, flushes and one or two re-bucketings run in a child under strace; SIGKILL on entering the K-th "
                                "file-system call for every K whose predecessor changed the store directory (quick: 30 per history, the directory operations always included; thorough: all, with torn "
                                "variants of the killed write); each image is opened with the bit size that was being installed: the open may be refused only if the old bit size "
                                "still opens the store with everything in it; otherwise every key must read its durable value, and the store must work on (GC, flush, restart)"}


CHECKS["C09"] = Spec(
    prop_file="C09.v",
    skeleton="C09",
    tools=["sthdrive", "witness", "crashdrive"],
    extra=_c09_crash,
    weights=dict(put=34, get=10, has=2, size=2, remove=12, flush=10, rebits=9, missize=3, reopen=2, igc=2, pgc=3),
    gen_kw=dict(sweep_p=0.7, bits_choices=(8, 9, 12, 15, 16, 17)),
    keep=("res", "tbl"),
    aspects=("map", "sizes"),
    nontrivial=lambda t, r: _count_ops(t, ("rebits",)) >= 1 and _count_ops(t, ("put",)) >= 3,
    rule=_KEYS_RULE.replace("{8,9,12,16}", "{8,9,12,15,16,17}") + "Close + reopen with another bit size at random positions, opens with a different index / primary file-size "
         "limit (must be refused with the specific error, then the original settings must work); non-trivial = >= 1 re-bucketing and >= 3 puts",
)
CHECKS["C08"] = Spec(
    prop_file="C08.v",
    weights=dict(put=44, get=12, has=2, remove=16, flush=18, reopen=2, igc=1),
    gen_kw=dict(bits_choices=(8, 9, 12, 16), imax_choices=(100, 300, 1 << 30), pmax_choices=(300, 1 << 30), imm_p=0.1,
                nkeys=(6, 14), lens=(6, 7, 8), equal_len=True, one_bucket=True, nops=(25, 80)),
    variants=[(0.3, dict(gen_kw=dict(one_bucket=False)))],
    keep=("res", "tbl", "img"),
    aspects=("map", "rl", "idx"),
    witnesses=["C08-unreadable-neighbour"],     # index-level, real multihash primary, primary files renamed away during the operation: refused => nothing changed
    nontrivial=lambda t, r: _count_ops(t, ("put",)) >= 6 and _count_ops(t, ("remove",)) >= 1 and _count_ops(t, ("flush",)) >= 2,
    rule="histories over 6-14 EQUAL-LENGTH multihash keys (digest 6-8 bytes over a 2-letter alphabet) that all fall in one bucket and share long prefixes "
         "(30 %: spread over a few buckets), inserted, overwritten (re-pointed) and removed in random order with flushes in between; after every flush the record "
         "list of every bucket is decoded from the real index file and checked (sorted, prefix-free, each stored prefix a prefix of its own key read from the "
         "primary, distinct live locations, right bucket tag); the index files are also compared byte for byte with the model; "
         "non-trivial = >= 6 puts, >= 1 removal, >= 2 flushes",
)
def _crash_enum(ctx):
    """Kill-injection enumeration (vlib/crash.py) over a few histories; every kill point and torn-write variant is recovered
    by the real code and judged by crashdrive recover."""
    from . import crash
    prop, tier, wd, rng = ctx["prop"], ctx["tier"], ctx["wd"], ctx["rng"]
    C.go_build(["crashdrive"])
    nh, maxp = (5, 40) if tier == "quick" else (60, None)
    if ctx.get("crash_small"):
        nh, maxp = (2, 30) if tier == "quick" else (20, None)
    hists = []
    cdir = os.path.join(C.VERIF, "corpus", prop)
    if os.path.isdir(cdir):
        for fn in sorted(os.listdir(cdir)):
            if fn.endswith(".crashhist"):
                hists.append(os.path.join(cdir, fn))
    if ctx.get("replay") and ctx["replay"].endswith(".crashhist"):
        hists, nh = [ctx["replay"]], 0
    cw = os.path.join(wd, "crashenum"); os.makedirs(cw, exist_ok=True)
    for i in range(nh):
        t = gen.history(rng, dict(put=36, remove=12, flush=16, pgc=9, igc=7, reopen=5, get=2, has=0, size=0),
                        nops=(14, 34), imm_p=0.1, imax_choices=(1, 40, 100, 300), pmax_choices=(1, 60, 100, 300), bits_choices=(8, 9, 12), nkeys=(4, 8))
        p = os.path.join(cw, "g%03d.crashhist" % i)
        open(p, "w").write(t)
        hists.append(p)
    viol, points, torn, calls = [], 0, 0, 0
    samples = []
    for hp in hists:
        n, nt, fails, nc = crash.enumerate_history(hp, cw, rng, max_points=maxp, keep_writes=(4 if ctx.get("crash_small") else 0))
        points += n; torn += nt; calls += nc
        if len(samples) < 2:
            samples.append({"crash_history": open(hp).read().strip().split("\n")[:14], "kill_points": n, "torn_variants": nt})
        for f in fails[:2]:
            txt = open(hp).read()
            rp = C.save_replay(prop, "crash-%s.crashhist" % hashlib.sha1((txt + f["what"]).encode()).hexdigest()[:10],
                               "# %s fails on the implementation: %s\n# crash point: %s\n# directory image left by the crash: %s (acknowledged ops: %s)\n"
                               "# replay: cd /verif && ./check %s --replay <this file>   (re-enumerates every crash point of this history)\n%s"
                               % (prop, f["bad"], f["what"], f["image"], f["ack"], prop, txt))
            viol.append(("crash enumeration: %s [%s]" % (f["bad"], f["what"]), rp, True))
        if viol:
            break
    # byte-level tie of the recovery's primary trim: what Open made of the last primary file of every crash image, replayed on Trimb.trim_len
    trims = sorted(set(crash.TRIMS))
    torn_tails = sum(1 for hx, n in trims if n != len(hx) // 2)
    tterms = [("%s -> %d" % (hx, n), "  ([%s], %d)" % (";".join(str(b) for b in bytes.fromhex(hx)), n)) for hx, n in trims[:600]]
    tmism, tcoq = C.coq_replay(tterms, cw, header="From STH Require Import Store Trimb.\nFrom Coq Require Import List NArith. Import ListNotations. Open Scope N_scope.\n",
                               ctor_list="trim_case", fn="trim_mismatches") if tterms else ([], 0.0)
    if tmism and not viol:
        rp = C.save_replay(prop, "trimcorr.txt", "correspondence obligation broken: Trimb.trim_len (coq/theories/Trimb.v) and MultihashPrimary Open disagree about where the last primary file of a crash image\n"
                           "is cut (bytes of the file as the crash left it -> length after Open), on %d of %d images; first: %s\n" % (len(tmism), len(tterms), tmism[0][0]))
        viol.append(("correspondence: the model of the primary trim and Open disagree on %d of %d crash images" % (len(tmism), len(tterms)), rp, False))
    return viol, {"evaluations": points + torn, "crash_points": points, "torn_write_variants": torn, "file_system_calls_traced": calls,
                  "primary_trim_images_replayed": len(tterms), "primary_trim_images_with_a_torn_tail": torn_tails, "primary_trim_mismatches": len(tmism),
                  "crash_histories": len(hists), "samples": samples,
                  "crash_rule": "each history runs in a child under strace; SIGKILL is delivered on entering the K-th file-system call for every K whose "
                                "predecessor changed the store directory (quick: a sample of 40 per history); when the killed call is a write/pwrite64 its data is "
                                "applied as a proper prefix (1,2,3,4,5,8,n/2,n-1 bytes); the real code recovers each image: open succeeds, every key reads a durable "
                                "or since-acknowledged value, and the store behaves like a map through 2 GC cycles, a flush, a second un-clean restart and a clean reopen"}

CHECKS["C03"] = Spec(
    prop_file="C03.v",
    skeleton=["C03", "C13"],      # the order "header, then remove" (Retire.v) and the hand-over of the freelist file (HandOver.v)
    weights=dict(put=36, get=6, remove=14, flush=6, crash=12, pgc=6, igc=5, reopen=4),
    gen_kw=dict(imax_choices=(1, 40, 100, 300), pmax_choices=(1, 60, 100, 300), imm_p=0.15),
    keep=("res", "crash"),
    aspects=("map", "crash"),
    quick_n=120, thorough_n=3000,
    witnesses=["F8-close-writes-index-before-primary", "F11-stale-record-relocated-after-crash", "F12-gc-before-flush-then-crash",
               "F12b-writer-inside-commit-then-crash", "F13-torn-index-size-prefix", "F19-torn-freelist-entry", "F20-torn-primary-record"],
    tools=["sthdrive", "witness", "crashdrive"],
    nontrivial=lambda t, r: any("crash_keep" in (x.get("extra") or {}) and 0 < (x["extra"]["crash_of"]) for x in r),
    rule=_KEYS_RULE + "record-granular crash cuts: before a Flush the harness fixes a cut (N mod records+1), builds the directory image a crash after that many "
         "index records of the flush would leave (primary complete, freelist not yet written, no snapshot), recovers it with the real code and reads every key; "
         "the model evaluates recover(flush_cut s done) on the same cut; non-trivial = a cut inside a flush that appended >= 1 index record",
    extra=_crash_enum,
)
def _fc_check(ctx):
    """C14: random and (thorough) exhaustive operation sequences on the real file cache, replayed on the model; protocol oracle on the real trace."""
    import itertools
    prop, tier, wd, rng = ctx["prop"], ctx["tier"], ctx["wd"], ctx["rng"]
    seqs = []
    cdir = os.path.join(C.VERIF, "corpus", prop)
    if os.path.isdir(cdir):
        for fn in sorted(os.listdir(cdir)):
            if fn.endswith(".fcseq"):
                seqs += [l.strip() for l in open(os.path.join(cdir, fn)) if l.strip() and not l.startswith("#")]
    if ctx.get("replay") and ctx["replay"].endswith(".fcseq"):
        seqs = [l.strip() for l in open(ctx["replay"]) if l.strip() and not l.startswith("#")]
        nrand = 0
    else:
        nrand = 300 if tier == "quick" else 20000
    def rnd():
        ops = []
        for _ in range(rng.randint(4, 45)):
            r = rng.random()
            if r < 0.42: ops.append("open %d" % rng.randint(0, 5))
            elif r < 0.74: ops.append("closeref %d" % rng.randint(0, 9))
            elif r < 0.83: ops.append("remove %d" % rng.randint(0, 5))
            elif r < 0.87: ops.append("clear")
            else: ops.append("setsize %d" % rng.choice((0, 0, 1, 1, 2, 3, 4, 5)))
        return "%d ; %s" % (rng.choice((0, 0, 1, 2, 3, 5)), " ; ".join(ops))
    seqs += [rnd() for _ in range(nrand)]
    exhaustive = False
    if tier == "thorough" and not ctx.get("replay"):
        alphabet = ["open 0", "open 1", "closeref 0", "closeref 1", "remove 0", "clear", "setsize 0", "setsize 1", "setsize 2"]
        for c0 in (0, 1, 2):
            for L in range(1, 6):
                for t in itertools.product(alphabet, repeat=L):
                    seqs.append("%d ; %s" % (c0, " ; ".join(t)))
        exhaustive = True
    C.go_build(["fcdrive"])
    parts = C.chunks(seqs, C.NCPU)
    def one(i):
        inp = os.path.join(wd, "fc%d.in" % i)
        open(inp, "w").write("\n".join(parts[i]) + "\n")
        p = C.sh([os.path.join(C.BIN, "fcdrive"), inp, os.path.join(wd, "fc%d.coq" % i), os.path.join(wd, "fc%d.jsonl" % i)], check=False, timeout=3000)
        if p.returncode != 0:
            raise C.CheckError("fcdrive failed: " + p.stdout[-2000:])
        terms = []
        txt = open(os.path.join(wd, "fc%d.coq" % i)).read()
        for m in re.finditer(r"\(\*SEQ (\d+)\*\)\n(.*?)(?=\(\*SEQ |\Z)", txt, flags=re.S):
            terms.append(((i, int(m.group(1))), m.group(2).strip()))
        recs = [json.loads(l) for l in open(os.path.join(wd, "fc%d.jsonl" % i))]
        return terms, recs
    from concurrent.futures import ThreadPoolExecutor
    with ThreadPoolExecutor(len(parts)) as ex:
        outs = list(ex.map(one, range(len(parts))))
    viol = []
    terms = [t for o in outs for t in o[0]]
    # protocol oracle on the real observations
    nontriv = set()
    nobs = 0
    bad_oracle = []
    for pi, (_, recs) in enumerate(outs):
        for r in recs:
            nobs += 1
            seqtxt = parts[pi][r["seq"]]
            r["lent"] = r.get("lent") or []
            r["open"] = r.get("open") or []
            what = None
            if r.get("panic"):
                what = "panic: " + r["panic"]
            elif not set(r["lent"]) <= set(r["open"] or []):
                what = "handle(s) %s lent to the user are closed after op %d (%s)" % (sorted(set(r["lent"]) - set(r["open"] or [])), r["i"], r["op"])
            elif len(r["open"] or []) > r["cap"] + len(set(r["lent"])):
                what = "%d descriptors open with capacity %d and %d distinct handles lent after op %d (%s)" % (len(r["open"]), r["cap"], len(set(r["lent"])), r["i"], r["op"])
            elif r["out"] == "OErrClosed":
                what = "Close of a held handle returned an error at op %d (%s)" % (r["i"], r["op"])
            if what:
                bad_oracle.append((seqtxt, what))
            if r["i"] >= 3 and len(set(r["lent"])) >= 1 and r["op"].startswith(("SetSize", "Remove", "Clear")):
                nontriv.add(seqtxt)
    mism, coq_s = C.coq_replay(terms, wd, header="From STH Require Import FileCache FileCacheReplay.\nFrom Coq Require Import List. Import ListNotations.\n",
                               ctor_list="(nat * list fcobs)", fn="fc_mismatches")
    def fc_fails(seqtxt):
        w2 = os.path.join(wd, "fcshrink"); os.makedirs(w2, exist_ok=True)
        inp = os.path.join(w2, "s.in"); open(inp, "w").write(seqtxt + "\n")
        C.sh([os.path.join(C.BIN, "fcdrive"), inp, os.path.join(w2, "s.coq"), os.path.join(w2, "s.jsonl")], check=False, timeout=600)
        for l in open(os.path.join(w2, "s.jsonl")):
            r = json.loads(l)
            lent, opn = r.get("lent") or [], r.get("open") or []
            if r.get("panic") or not set(lent) <= set(opn) or len(opn) > r.get("cap", 0) + len(set(lent)) or r.get("out") == "OErrClosed":
                return True
        return False
    def fc_shrink(seqtxt):
        c0, ops = seqtxt.split(" ; ", 1)[0], seqtxt.split(" ; ")[1:]
        i, tries = 0, 0
        while i < len(ops) and tries < 150:
            cand = ops[:i] + ops[i + 1:]
            tries += 1
            if cand and fc_fails(c0 + " ; " + " ; ".join(cand)):
                ops = cand
            else:
                i += 1
        return c0 + " ; " + " ; ".join(ops)
    seen = set()
    for seqtxt, what in sorted(bad_oracle, key=lambda x: len(x[0])):
        if seqtxt in seen or len(seen) >= 2:
            continue
        seen.add(seqtxt)
        seqtxt = fc_shrink(seqtxt)
        rp = C.save_replay(prop, "fc-%s.fcseq" % hashlib.sha1(seqtxt.encode()).hexdigest()[:10], "# C14 fails on the implementation: %s\n# replay: cd /verif && ./check C14 --replay <this file>\n%s\n" % (what, seqtxt))
        viol.append(("file cache: " + what, rp, True))
    if mism and not bad_oracle:
        (pi, si), at = mism[0]
        seqtxt = parts[pi][si]
        rp = C.save_replay(prop, "fccorr-%s.fcseq" % hashlib.sha1(seqtxt.encode()).hexdigest()[:10],
                           "# correspondence obligation broken: model coq/theories/FileCache.v (step true) and store/filecache disagree at observation %d of this sequence (%d of %d sequences disagree)\n"
                           "# the protocol oracle (lent => open, descriptor bound, no Close error) found no failing sequence among %d\n%s\n" % (at, len(mism), len(terms), len(seqs), seqtxt))
        viol.append(("correspondence: file-cache model and implementation disagree on %d of %d sequences" % (len(mism), len(terms)), rp, False))
    return viol, {"evaluations": len(seqs), "distinct_nontrivial": len(nontriv), "observations": nobs, "exhaustive": exhaustive,
                  "traces_validated_against_impl": len(terms) - len(mism), "correspondence_mismatches": len(mism), "oracle_failures": len(bad_oracle),
                  "samples": [{"sequence": s} for s in seqs[:3]], "coq_replay_s": round(coq_s, 1)}

def run_conc(scenarios, wd, tag, proc_timeout=60):
    """Run concdrive scenarios in parallel. Returns list of (scenario_text, result_dict_or_None, raw)."""
    from concurrent.futures import ThreadPoolExecutor
    d = os.path.join(wd, tag); os.makedirs(d, exist_ok=True)
    def one(i):
        p = os.path.join(d, "s%04d.scn" % i)
        open(p, "w").write(scenarios[i])
        try:
            r = subprocess.run([os.path.join(C.BIN, "concdrive"), p], env=dict(os.environ, GOLOG_LOG_LEVEL="fatal"), stdout=subprocess.PIPE, stderr=subprocess.PIPE, text=True, timeout=proc_timeout)
        except subprocess.TimeoutExpired:
            # the driver bounds every wait of its own (timeout_ms); only a call of the store made by the controller itself
            # (final reads, Flush, Close) that never returns can keep it alive
            return scenarios[i], {"stuck": ["<driver: a final Get/Flush/Close of the controller never returned within %d s>" % proc_timeout], "threads": [], "events": [],
                                  "final": {}, "flushes_in_free_run": 0, "hung": True}, "driver killed after 60 s"
        try:
            return scenarios[i], json.loads(r.stdout), r.stderr[-500:]
        except Exception:
            return scenarios[i], None, (r.stdout[-300:] + r.stderr[-500:])
    with ThreadPoolExecutor(C.NCPU) as ex:
        return list(ex.map(one, range(len(scenarios))))


def confirm_stuck(txt, r, wd):
    """A 'never returned' verdict rests on a timeout, and a loaded machine can exceed one: before it is reported the same scenario is run again, alone,
    with four times the time allowance (twice); the verdict stands only if a call is still blocked then."""
    if r.get("hung"):
        _, r2, _ = run_conc([txt], wd, "confirm", proc_timeout=400)[0]      # alone, with a long allowance
        return bool(r2 is not None and (r2.get("hung") or r2["stuck"]))
    txt2 = re.sub(r"timeout_ms=(\d+)", lambda m: "timeout_ms=%d" % (4 * int(m.group(1))), txt)
    for i in range(2):
        _, r2, _ = run_conc([txt2], wd, "confirm")[0]
        if r2 is not None and r2["stuck"]:
            return True
    return False

K1, K2, K3 = "120607070701010a", "120607070702020b", "120607070703030c"

def _c12_check(ctx):
    """C12: schedules of rate-limited writers and Flush callers over the yield points of flushTick/Flush on the real store; afterwards flushes
    keep succeeding; every writer must return."""
    prop, tier, wd, rng = ctx["prop"], ctx["tier"], ctx["wd"], ctx["rng"]
    C.go_build(["concdrive"])
    n = 96 if tier == "quick" else 3000
    scen = []
    cdir = os.path.join(C.VERIF, "corpus", prop)
    if os.path.isdir(cdir):
        scen += [open(os.path.join(cdir, fn)).read() for fn in sorted(os.listdir(cdir)) if fn.endswith(".scn")]
    if ctx.get("replay") and ctx["replay"].endswith(".scn"):
        scen, n = [open(ctx["replay"]).read()], 0
    for _ in range(n):
        fam = rng.random()
        th = [("W1", "put %s 6161" % K1), ("W2", "put %s 6262" % K2)]
        if fam < 0.25:
            # a started store: the periodic flusher (Store.run, 20 ms) is the only one who flushes after the schedule; 0-2 explicit Flush calls inside the schedule
            # open the windows between a writer's measuring, registering and waiting ("a single writer with no other traffic")
            if rng.random() < 0.4:
                th = th[:1]
            th += [("F%d" % (i + 1), "flush") for i in range(rng.choice((0, 1, 1, 2)))]
            names = [t[0] for t in th]
            sched = [rng.choice(names) for _ in range(rng.randint(6, 30))]
            scen.append("cfg bits=8 burst=1 rate=1e-9 start=1 sync_ms=20 timeout_ms=2500\n" + "".join("thread %s %s\n" % t for t in th) + "schedule " + " ".join(sched) + "\n")
            continue
        if rng.random() < 0.3:
            th.append(("W3", rng.choice(["remove %s" % K3, "put %s 6363" % K3])))
        nf = rng.choice((1, 2, 2, 3))
        th += [("F%d" % (i + 1), "flush") for i in range(nf)]
        names = [t[0] for t in th]
        sched = [rng.choice(names) for _ in range(rng.randint(8, 40))]
        if rng.random() < 0.5:
            sched = ["W1"] * rng.randint(5, 8) + (["W2"] * rng.randint(0, 8)) + sched      # a writer is registered and waiting before any Flush call begins
        if fam < 0.55:
            # burst window: several unflushed puts into ONE bucket make the outstanding work a writer measures (every put re-buffers the bucket's whole record list)
            # exceed the burst rate while what a Flush really writes may stay below it
            ks = rng.sample([k for k in CKEYS if k not in (K1, K2)], 3) + [K3]
            setup = "".join("setup put %s %s\n" % (k, "61" * rng.randint(1, 12)) for k in ks[:rng.randint(2, 4)])
            scen.append("cfg bits=8 burst=%d rate=1e-9 timeout_ms=1500\n" % rng.choice((60, 100, 150, 200, 300, 400)) + setup + "".join("thread %s %s\n" % t for t in th) + "schedule " + " ".join(sched) + "\nfree flush\n")
            continue
        setup = "setup put %s 6060\nsetup flush\n" % K3 if rng.random() < 0.5 else ""
        scen.append("cfg bits=8 burst=1 rate=1e-9 timeout_ms=1500\n" + setup + "".join("thread %s %s\n" % t for t in th) + "schedule " + " ".join(sched) + "\nfree flush\n")
    res = run_conc(scen, wd, "c12")
    viol, nontriv, waited = [], set(), 0
    for txt, r, raw in res:
        if r is None:
            raise C.CheckError("concdrive failed: " + raw)
        pts = [e["point"] for e in (r["events"] or [])]
        if "store.flushTick.beforeWait" in pts:
            waited += 1
            nontriv.add(txt)
        bad = None
        if r["stuck"] and not confirm_stuck(txt, r, wd):
            continue            # slow, not blocked
        if r.get("unreleased"):
            _, r2, _ = run_conc([re.sub(r"timeout_ms=(\d+)", lambda m: "timeout_ms=%d" % (4 * int(m.group(1))), txt)], wd, "confirm")[0]
            if r2 is not None and r2.get("unreleased"):
                u = r2["unreleased"][0]
                bad = "writer %s, registered for the flush notice, is still waiting although Flush call %s began afterwards and completed successfully (it is released only by a later flush)" % (u["writer"], u["flush"])
        if bad:
            pass
        elif r["stuck"]:
            bad = "thread(s) %s still blocked %s ms after the schedule although %d later Flush calls succeeded" % (r["stuck"], 1500, r["flushes_in_free_run"])
        else:
            for t in r["threads"]:
                if not t["res"].startswith(("ROk", "RExists")):
                    bad = "call %s %s failed: %s" % (t["name"], t["op"], t["res"])
        if bad and len(viol) < 3:
            rp = C.save_replay(prop, "sched-%s.scn" % hashlib.sha1(txt.encode()).hexdigest()[:10], "# C12 fails on the implementation: %s\n# replay: cd /verif && ./check C12 --replay <this file>\n%s" % (bad, txt))
            viol.append(("schedule: " + bad, rp, True))
    return viol, {"evaluations": len(scen), "distinct_nontrivial": len(nontriv), "schedules_in_which_a_writer_reached_the_wait": waited,
                  "schedules_with_a_flush_that_had_to_release_a_registered_writer": sum(1 for _, r, _ in res if r and r.get("must_release")),
                  "schedules_on_a_started_store": sum(1 for t in scen if "start=1" in t),
                  "samples": [{"scenario": scen[-1].strip().split("\n")}],
                  "schedule_rule": "2-3 rate-limited writers (BurstRate 1, measured flush rate forced to 1e-9) and 1-3 explicit Flush callers are stepped through the yield points "
                                   "(index lookup, primary put, flushTick after measuring / before waiting, commit after the index flush, Flush after commit) in a random order of 8-40 steps; "
                                   "then all run freely while the controller keeps calling Flush every 2 ms; verdict: every call returns within 1.5 s; non-trivial = a writer reached the wait"}

def _parse_scn(txt):
    setup, threads = [], []
    imm = False
    for l in txt.split("\n"):
        f = l.split()
        if not f:
            continue
        if f[0] == "cfg":
            imm = "imm=1" in f
        if f[0] == "setup":
            setup.append({"op": f[1], "key": f[2] if len(f) > 2 else "", "val": ("" if len(f) < 4 or f[3] in ("-", "nil") else f[3])})
    return setup, imm

# keys of one bucket (bits=8: first digest byte 7) sharing 2-3 leading bytes
CKEYS = ["120607070701010a", "120607070702020b", "120607070701020c", "120607070801010d", "12060707070102ee"]

# keys in three buckets (bits=8: first digest byte 5, 6, 7), sharing leading bytes inside a bucket
MKEYS = ["120605070701010a", "120605070702020b", "120606070701020c", "120606070801010d", "12060707070102ee", "120607070703010f"]

def _coq_bytes(hexs):
    if hexs in ("-", "nil", ""):
        return "[]"
    return "[" + ";".join(str(b) for b in bytes.fromhex(hexs)) + "]"

def _model_scenario(rng):
    """Put / Get / Has / GetSize / Remove / Flush, keys of bucket 7, every thread runs to completion inside the schedule: replayable on Conc2."""
    keys = rng.sample(CKEYS, rng.randint(2, 4))
    vals = ["61", "6262", "636363", "-", "6464646464646464"]
    setup = []
    for k in keys:
        if rng.random() < 0.6:
            setup.append("setup put %s %s" % (k, rng.choice(vals)))
    if setup and rng.random() < 0.6:
        setup.append("setup flush")
        if rng.random() < 0.5:
            setup.append("setup put %s %s" % (rng.choice(keys), rng.choice(vals)))
    writers, th = set(), []
    same_key_writers = rng.random() < 0.3        # several writers of one key: the key lock makes the later one wait (a step of a blocked thread is a no-op of the model)
    for i in range(rng.randint(2, 4)):
        kind = rng.choice(("put", "put", "get", "get", "remove", "has", "size", "flush"))
        k = rng.choice(keys)
        if kind in ("put", "remove"):
            cand = keys if same_key_writers else [x for x in keys if x not in writers]
            if not cand:
                kind = "get"
            else:
                k = rng.choice(cand); writers.add(k)
        th.append(("T%d" % i, "put %s %s" % (k, rng.choice(vals)) if kind == "put" else ("flush" if kind == "flush" else "%s %s" % (kind, k))))
    names = [t[0] for t in th]
    sched = [rng.choice(names) for _ in range(rng.randint(4, 16))] + names * 8      # everybody finishes inside the schedule
    return "cfg bits=8 imax=1048576 pmax=1048576 timeout_ms=3000 quiet_ms=3000 model=1\n" + "\n".join(setup) + ("\n" if setup else "") + \
           "".join("thread %s %s\n" % t for t in th) + "schedule " + " ".join(sched) + "\n"

def _model_scenario_gc(rng):
    """C06: callers and explicit flushes next to ONE index GC cycle (one file per step) over several small index files with stale record lists;
    keys in three buckets; every thread runs to completion inside the schedule: replayable on Conc2."""
    vals = ["61", "6262", "636363", "-", "6464646464646464"]
    setup = []
    for rnd in range(rng.randint(2, 3)):
        for k in MKEYS:
            if rng.random() < 0.8:
                setup += ["setup put %s %s" % (k, "%02x" % (0x61 + rnd) * rng.randint(1, 6)), "setup flush"]
    for k in rng.sample(MKEYS, rng.randint(0, 3)):
        setup.append("setup put %s %s" % (k, "7a" * rng.randint(1, 5)))         # dirty buckets waiting for the next flush
    writers, th = set(), [("G1", "igc %d" % rng.randint(0, 1))]
    for i in range(rng.randint(2, 3)):
        kind = rng.choice(("put", "get", "get", "remove", "has", "size", "flush", "flush"))
        k = rng.choice(MKEYS)
        if kind in ("put", "remove"):
            cand = [x for x in MKEYS if x not in writers]
            k = rng.choice(cand); writers.add(k)
        th.append(("T%d" % i, "put %s %s" % (k, rng.choice(vals)) if kind == "put" else ("flush" if kind == "flush" else "%s %s" % (kind, k))))
    names = [t[0] for t in th]
    sched = [rng.choice(names) for _ in range(rng.randint(6, 30))] + [n for n in names if n != "G1"] * 8 + ["G1"] * 40
    return "cfg bits=8 imax=%d pmax=1048576 timeout_ms=3000 quiet_ms=3000 model=1\n" % rng.choice((40, 52, 64)) + "\n".join(setup) + "\n" + \
           "".join("thread %s %s\n" % t for t in th) + "schedule " + " ".join(sched) + "\n"

def _model_case(txt, r):
    """Translate a finished run of a model=1 scenario into a Coq conc_case (or None if the run cannot be replayed)."""
    setup, calls, names = [], [], []
    for l in txt.split("\n"):
        f = l.split()
        if not f:
            continue
        if f[0] == "setup":
            if f[1] == "put":
                setup.append("OPut %s %s" % (_coq_bytes(f[2]), _coq_bytes(f[3])))
            elif f[1] == "flush":
                setup.append("OFlush [5;6;7]")
            else:
                return None
        if f[0] == "thread":
            names.append(f[1])
            if f[2] == "put":
                calls.append("QPut %s %s" % (_coq_bytes(f[3]), _coq_bytes(f[4])))
            elif f[2] == "get":
                calls.append("QGet %s" % _coq_bytes(f[3]))
            elif f[2] == "remove":
                calls.append("QRemove %s" % _coq_bytes(f[3]))
            elif f[2] == "has":
                calls.append("QHas %s" % _coq_bytes(f[3]))
            elif f[2] == "size":
                calls.append("QSize %s" % _coq_bytes(f[3]))
            elif f[2] == "flush":
                calls.append("QFlush")
            elif f[2] == "igc":
                calls.append("QIgcCycle %s" % ("true" if f[3] != "0" else "false"))
            else:
                return None
    wkeys = collections.Counter(l.split()[3] for l in txt.split("\n") if l.startswith("thread ") and l.split()[2] in ("put", "remove"))
    lock_waiters = {l.split()[1] for l in txt.split("\n") if l.startswith("thread ") and l.split()[2] in ("put", "remove") and wkeys[l.split()[3]] > 1}
    by_design = all(n in lock_waiters for n in r.get("quiet_threads", ["?"]))     # a writer waiting for the key lock is blocked, not slow: the log is still the order of the steps
    if r["stuck"] or (r.get("quiet_timeouts", 1) and not by_design) or r.get("unfinished_at_free_run", 1):
        return None      # a thread ran concurrently with the next one (slow machine): the event log is no longer the order of the atomic steps
    idx = {n: i for i, n in enumerate(names)}
    sched = []
    for e in r["events"] or []:
        t = idx[e["t"]]
        pt = e["point"]
        if pt == "index.Get.afterReadBucketInfo":
            sched.append(t)                 # the bucket has been read: the lookup step
        elif pt == "store.Put.afterPrimaryPut":
            sched.append(t)                 # the record is in the primary pool
        elif pt == "index.Flush.afterSwap":
            sched.append(t)                 # the pools have been swapped: the model's Flush step
        elif pt == "index.gc.beforeReap":
            sched.append(t)                 # the cycle stands before a file: the model's previous step (the scan, or the file before) is complete
        elif pt == "done":
            sched += [t, t]                 # what is left: primary read / index mutation (extra steps are no-ops)
    for i, c in enumerate(calls):
        if c.startswith("QIgcCycle"):
            sched += [i] * 4                # (a cycle over files the model has and the code had not - the layouts may differ - finishes here)
    exp = []
    for t in r["threads"]:
        if t["op"] == "put":
            exp.append({"ROk": "ROk", "RExists": "RExists"}.get(t["res"], "RErr"))
        elif t["op"] == "get":
            exp.append("RErr" if t["res"] != "ROk" else "RVal %s %s" % ("true" if t["found"] else "false", _coq_bytes(t["out"]) if t["found"] else "[]"))
        elif t["op"] in ("remove", "has"):
            exp.append("RErr" if t["res"] != "ROk" else "RBool %s" % ("true" if t["found"] else "false"))
        elif t["op"] == "size":
            exp.append("RErr" if t["res"] != "ROk" else "RSize %s %s" % ("true" if t["found"] else "false", t["out"] or "0"))
        elif t["op"] in ("flush", "igc"):
            exp.append("ROk" if t["res"] == "ROk" else "RErr")
    return "  ([%s],\n   [%s],\n   [%s]%%nat,\n   [%s])" % ("; ".join(setup), "; ".join(calls), "; ".join(map(str, sched)), "; ".join(exp))

def _orphan_relocation_scenario(rng):
    """A Put of a NEW key has appended its record and is parked before it inserts the index entry; another caller's Flush writes the record
    into a primary file that is then non-current and low-use (its big first record was removed); a primary GC cycle tries to relocate the
    record the index does not name yet (its compare-and-swap must fail and must free ONLY the copy); then the Put publishes the location."""
    B, K, F = "120607070701010a", "120607070702020b", "120607070703030c"
    big = rng.choice((74, 76, 80))
    setup = ["setup put %s %s" % (B, "62" * big), "setup flush", "setup remove %s" % B, "setup flush"]
    th = [("T0", "put %s %s" % (K, "6b" * 10)), ("T1", "put %s %s" % (F, "66" * rng.randint(4, 12))), ("F1", "flush"), ("G1", "pgc %d" % rng.choice((25, 50, 60)))]
    if rng.random() < 0.4:
        th.append(("T2", "get %s" % K))
    names = [t[0] for t in th]
    sched = ["T0"] * 3 + ["T1"] * 8 + ["F1"] * 12 + ["G1"] * 14
    if rng.random() < 0.3:
        sched = ["T0"] * 3 + [rng.choice(names[1:]) for _ in range(rng.randint(10, 40))] + ["T1"] * 8 + ["F1"] * 12 + ["G1"] * 14
    return "cfg bits=8 imax=1048576 pmax=100 timeout_ms=3000\n" + "\n".join(setup) + "\n" + "".join("thread %s %s\n" % t for t in th) + \
           "schedule " + " ".join(sched + ["T0"] * 6) + "\n"

def _gc_model_case(txt, r, cache=False):
    """Translate a finished run of a gcmodel=<nsup> scenario (a caller or two on K next to one primary GC cycle that relocates K's first record)
    into a case of ConcGC.gc_case: abstract keys, values and locations; the observed events become 'run thread t until it has done X'."""
    m = re.search(r"gcmodel=(\d+|dyn)", txt.split("\n")[0])
    if not m:
        return None
    dyn = m.group(1) == "dyn"
    nsup = 0 if dyn else int(m.group(1))
    if dyn:
        # the phases must have run one after the other: T1 (the writer) returned before the Flush began, the Flush before the cycle
        pos = {}
        for i, e in enumerate(r["events"] or []):
            pos.setdefault((e["t"], e["point"]), i)
        try:
            if not (pos[("T1", "done")] < pos[("F1", "begin")] and pos[("F1", "done")] < pos[("G1", "begin")]):
                return None
        except KeyError:
            return None
    keys, vals = {}, {}
    def kid(h):
        return keys.setdefault(h, len(keys) + 1)
    def vid(h):
        return vals.setdefault(h, len(vals) + 1)
    setup, calls, names, kinds = [], [], [], []
    for l in txt.split("\n"):
        f = l.split()
        if not f:
            continue
        if f[0] == "setup" and f[1] == "put":
            setup.append("APut %d %d" % (kid(f[2]), vid(f[3])))
        if f[0] == "thread":
            names.append(f[1]); kinds.append(f[2])
            if f[2] == "put":
                calls.append("APut %d %d" % (kid(f[3]), vid(f[4])))
            elif f[2] in ("get", "has", "size"):
                calls.append("AGet %d %s" % (kid(f[3]), "true" if cache else "false"))
            elif f[2] == "remove":
                calls.append("ARemove %d" % kid(f[3]))
            elif f[2] == "pgc":
                # static family: the hand-over is the setup's nsup entries and the candidate is location nsup = K's first record;
                # dynamic family: the hand-over is the one entry of T1's write (flushed by F1), nothing is relocated (one primary file)
                calls.append("APgc 1 []" if dyn else "APgc %d [%d]" % (nsup, nsup))
            elif f[2] == "flush" and dyn:
                calls.append("AGet 0 false")                     # (the model has no Flush: a lookup of a key nobody uses keeps the thread numbers aligned)
            else:
                return None
    wkeys = collections.Counter(l.split()[3] for l in txt.split("\n") if l.startswith("thread ") and l.split()[2] in ("put", "remove"))
    lock_waiters = {l.split()[1] for l in txt.split("\n") if l.startswith("thread ") and l.split()[2] in ("put", "remove") and wkeys[l.split()[3]] > 1}
    by_design = all(n in lock_waiters for n in r.get("quiet_threads", ["?"]))
    if r["stuck"] or (r.get("quiet_timeouts", 1) and not by_design) or r.get("unfinished_at_free_run", 1):
        return None
    idx = {n: i for i, n in enumerate(names)}
    looks = collections.Counter()
    sched = []
    for e in r["events"] or []:
        t, pt = idx[e["t"]], e["point"]
        kind = kinds[t]
        if pt == "index.Get.afterReadBucketInfo":
            looks[t] += 1
            # Has / GetSize ask the index whether the location was superseded (a lookup of their own) before they look the key up again
            sched.append((t, "TStep" if kind in ("has", "size") and looks[t] % 2 == 0 else "TLook"))
        elif pt == "store.Put.afterPrimaryPut":
            sched.append((t, "TAlloc"))
        elif pt == "freelist.ToGC.afterRename":
            sched.append((t, "THand"))
        elif pt == "gc.afterFreeList":
            sched.append((t, "TKilled"))
        elif pt == "gc.reap.beforeUpdateIndex":
            sched.append((t, "TCopy"))
        elif pt == "done":
            sched.append((t, "TDone"))
    exp = []
    for t in r["threads"]:
        if t["res"] != "ROk":
            exp.append("AErr")
        elif t["op"] == "flush":
            exp.append("AVal None")
        elif t["op"] in ("put", "pgc"):
            exp.append("AOk")
        elif t["op"] == "get":
            exp.append("AVal (Some %d)" % vid(t["out"]) if t["found"] else "AVal None")
        else:
            exp.append("ABool %s" % ("true" if t["found"] else "false"))
    return "  ([%s],\n   [%s],\n   [%s]%%nat,\n   [%s])" % ("; ".join(setup), "; ".join(calls), "; ".join("(%d, %s)" % x for x in sched), "; ".join(exp))

def _conc_scenarios(rng, n, gc, fam_range=None):
    scen = []
    for _ in range(n):
        fam = rng.random() if fam_range is None else rng.uniform(*fam_range)      # fam_range: only the families in that band
        if not gc and fam < 0.35:
            scen.append(_model_scenario(rng))
            continue
        if gc and fam < 0.2:
            scen.append(_model_scenario_gc(rng))
            continue
        if gc and fam < 0.4:
            # relocation-targeted: a low-use primary file whose last busy record is K; a caller works on K while a cycle relocates it
            K = "1206070707090909"
            others = ["12060707070%d0%d0%d" % (i, i, i) for i in range(1, 7)]
            nsup = rng.choice((3, 4, 6))
            pmax = {3: 100, 4: 130, 6: 190}[nsup]
            setup = ["setup put %s %s" % (o, "61" * 18) for o in others[:nsup]] + ["setup put %s %s" % (K, "31" * 18), "setup flush"] + \
                    ["setup put %s %s" % (o, "41" * 18) for o in others[:nsup]] + ["setup flush"]
            th = [("T0", rng.choice(("remove %s" % K, "put %s %s" % (K, "32" * 18), "put %s %s" % (K, "3233"), "get %s" % K, "size %s" % K))),
                  ("G1", "pgc %d" % rng.choice((25, 50, 60)))]
            if rng.random() < 0.5:
                th.append(("T1", rng.choice(("get %s" % K, "has %s" % K, "flush", "get %s" % others[0]))))
            names = [t[0] for t in th]
            sched = [rng.choice(names) for _ in range(rng.randint(6, 40))]
            if th[0][1].startswith("put") and rng.random() < 0.35:
                # the writer's compare-and-swap fails (the cycle moved the record first) and it starts over - still under the key lock:
                # a second writer of K that arrives during the second attempt has to wait
                th = th[:2] + [("T1", rng.choice(("remove %s" % K, "put %s 3435" % K)))]
                names = [t[0] for t in th]
                sched = ["T0"] * 3 + ["G1"] * 20 + ["T0"] * rng.choice((1, 2, 2, 3)) + ["T1"] * 8 + ["T0"] * 8
            # without a Flush thread the cycle's hand-over is exactly the setup's entries and its only relocation candidate is K's first record:
            # such a run is replayed on the location-protocol model (ConcGC.v); everybody finishes inside the schedule
            gcm = not any(t[1] == "flush" for t in th) and rng.random() < 0.8
            if gcm:
                sched += names * 14
            scen.append("cfg bits=8 imax=1048576 pmax=%d timeout_ms=3000%s\n" % (pmax, " quiet_ms=3000 gcmodel=%d" % nsup if gcm else "") + "\n".join(setup) + "\n" +
                        "".join("thread %s %s\n" % t for t in th) + "schedule " + " ".join(sched) + "\n" + ("free flush\n" if (not gcm and rng.random() < 0.3) else ""))
            continue
        if gc and fam < 0.6:
            # flush-versus-index-GC: several index files (tiny limit), dirty buckets waiting to be flushed, a Flush and an index cycle
            setup = []
            for rnd in range(rng.randint(2, 3)):
                for k in MKEYS:
                    if rng.random() < 0.8:
                        setup += ["setup put %s %s" % (k, "%02x" % (0x61 + rnd) * rng.randint(1, 6)), "setup flush"]
            dirty = rng.sample(MKEYS, rng.randint(2, 5))
            setup += ["setup put %s %s" % (k, "7a" * rng.randint(1, 5)) for k in dirty]
            th = [("F1", "flush"), ("G1", "igc %d" % rng.randint(0, 1)), ("T0", "get %s" % rng.choice(MKEYS))]
            if rng.random() < 0.4:
                th.append(("T1", "put %s 7171" % rng.choice([k for k in MKEYS if k not in dirty] or MKEYS)))
            names = [t[0] for t in th]
            sched = ["F1"] * rng.randint(1, 3) + [rng.choice(names) for _ in range(rng.randint(4, 30))]
            if rng.random() < 0.5:
                # the whole cycle runs while the Flush stands between "records written" and "bucket table updated" (or between the pool swap and the write)
                sched = ["F1"] * rng.choice((1, 2, 2)) + ["G1"] * 10 + sched
            scen.append("cfg bits=8 imax=%d pmax=1048576 timeout_ms=3000\n" % rng.choice((40, 52, 64)) + "\n".join(setup) + "\n" +
                        "".join("thread %s %s\n" % t for t in th) + "schedule " + " ".join(sched) + "\n")
            continue
        if gc and fam < 0.64:
            scen.append(_orphan_relocation_scenario(rng))
            continue
        if gc and fam < 0.73:
            # reader across overwrite + flush + primary GC: a call looks K up in the index and parks before it reads the primary; K is
            # overwritten (or removed), the change is flushed, a primary cycle reclaims the old record (marks it; truncates its file when the
            # limit is small); K was bound throughout an overwrite, so the parked call must still answer one of its values
            K = rng.choice(MKEYS)
            others = [k for k in MKEYS if k != K]
            vals = ["61", "6262", "636363", "6464646464646464"]
            pmax = rng.choice((30, 44, 60, 1048576, 1048576))
            pre = ["setup put %s %s" % (k, rng.choice(vals)) for k in rng.sample(others, rng.randint(0, 2))]
            post = ["setup put %s %s" % (k, rng.choice(vals)) for k in rng.sample(others, rng.randint(0, 3))]
            setup = pre + ["setup put %s %s" % (K, rng.choice(vals))] + (["setup flush"] if rng.random() < 0.5 else []) + post + ["setup flush"]
            rop = rng.choice(("get", "get", "has", "size"))
            wop = rng.choice(("put %s 7a7a7a" % K, "put %s 7a7a7a" % K, "put %s 7b" % K, "remove %s" % K))
            th = [("T0", "%s %s" % (rop, K)), ("T1", wop), ("F1", "flush"), ("G1", "pgc %d" % rng.choice((25, 50, 90)))]
            if rng.random() < 0.3:
                th.append(("T2", "%s %s" % (rng.choice(("get", "has", "size")), rng.choice([K] + others))))
            sched = ["T0"] * rng.choice((1, 2, 2, 2, 3)) + ["T1"] * 8 + ["F1"] * 12 + ["G1"] * 12
            if rng.random() < 0.3:
                names = [t[0] for t in th]
                sched = ["T0"] * 2 + [rng.choice(names[1:]) for _ in range(rng.randint(10, 40))] + ["T1"] * 8 + ["F1"] * 12 + ["G1"] * 12
            # with ONE primary file (nothing is relocated) and the phases in sequence the run is replayed on the location-protocol model: the
            # hand-over is then exactly the one entry T1's write produced and the flush wrote
            # replayed on the location-protocol model under BOTH resolutions of its read cache: the primary may still serve a record from its
            # write pool (the last flushed batch stays readable) after the collector marked it dead in the file; the parked reader then answers
            # the value it looked up, otherwise it asks the index again - the model must reproduce the run under one of the two ([AGet k cache])
            gcm = pmax == 1048576
            scen.append("cfg bits=8 imax=1048576 pmax=%d timeout_ms=3000%s\n" % (pmax, " quiet_ms=3000 gcmodel=dyn" if gcm else "") + "\n".join(setup) + "\n" +
                        "".join("thread %s %s\n" % t for t in th) + "schedule " + " ".join(sched + ["T0"] * 4 + ([t[0] for t in th] * 6 if gcm else [])) + "\n")
            continue
        if gc and fam < 0.8:
            # index reader across flush + index GC: a call reads its bucket's position under the read lock and parks before it reads the
            # record list from the file; a flush supersedes the list, an index cycle unlinks / truncates / marks it
            B7 = ["120607070701010a", "120607070702020b", "120607070703030c", "12060707070102ee"]
            OB = ["120608070702020b", "120609070702020b", "12060a070702020b", "12060b070702020b"]
            setup = []
            for k in rng.sample(B7[:2] + OB, rng.randint(3, 6)):
                setup += ["setup put %s %s" % (k, rng.choice(("61", "6262", "636363"))), "setup flush"]
            if not any(B7[0] in x for x in setup):
                setup = ["setup put %s 6161" % B7[0], "setup flush"] + setup
            rop = rng.choice(("get", "get", "has", "size", "put", "remove"))
            t0 = "put %s 7c7c" % B7[0] if rop == "put" else "%s %s" % (rop, B7[0])
            th = [("T0", t0), ("T1", "put %s %s" % (rng.choice(B7[2:]), "7a7a")), ("F1", "flush"), ("G1", "igc %d" % rng.randint(0, 1))]
            sched = ["T0"] + ["T1"] * 8 + ["F1"] * 12 + ["G1"] * 14
            if rng.random() < 0.6:
                # a second flush (of another bucket) before the cycle: the superseding list leaves the write pools too, so the retried lookup
                # has to read it from its file
                th += [("T2", "put %s 7d" % rng.choice(OB)), ("F2", "flush")]
                sched = ["T0"] + ["T1"] * 8 + ["F1"] * 12 + ["T2"] * 8 + ["F2"] * 12 + ["G1"] * 14
            if rng.random() < 0.3:
                names = [t[0] for t in th]
                sched = ["T0"] + [rng.choice(names[1:]) for _ in range(rng.randint(10, 40))] + ["T1"] * 8 + ["F1"] * 12 + ["G1"] * 14
            # limits of 16 / 20 bytes: every record list starts a file of its own, so the superseded list and its successor have the SAME local
            # offset in different files (a retry that compares offsets only does not notice that the bucket has moved)
            scen.append("cfg bits=8 imax=%d pmax=1048576 timeout_ms=3000\n" % rng.choice((16, 20, 40, 52, 64)) + "\n".join(setup) + "\n" +
                        "".join("thread %s %s\n" % t for t in th) + "schedule " + " ".join(sched + ["T0"] * 6) + "\n")
            continue
        pool = MKEYS if (gc and rng.random() < 0.5) else CKEYS
        keys = rng.sample(pool, rng.randint(2, 4))
        vals = ["61", "6262", "636363", "-", "6464646464646464"]
        setup = []
        # without collectors: also tiny file limits that the 8-16 byte records fill EXACTLY (the write path and the flush path must roll over at the same record)
        pmax = rng.choice((60, 100, 1048576)) if gc else rng.choice((16, 24, 32, 48, 64, 1048576, 1048576, 1048576))
        imax = rng.choice((40, 64, 100, 1048576)) if gc else rng.choice((40, 64, 1048576, 1048576))
        for k in keys:
            r = rng.random()
            if r < 0.6:
                setup.append("setup put %s %s" % (k, rng.choice(vals)))
        if setup and rng.random() < 0.7:
            setup.append("setup flush")
        if gc:
            # garbage for the collectors: overwrites and removals that are flushed
            for k in rng.sample(pool, 3):
                if k not in keys:
                    setup += ["setup put %s %s" % (k, rng.choice(vals)), "setup flush", "setup put %s %s" % (k, "7a7a7a7a7a7a7a7a7a7a"), "setup flush"]
            if rng.random() < 0.5:
                setup.append("setup pgc %d" % rng.randint(20, 90))
        writers = set()
        th = []
        same_key_writers = rng.random() < 0.3       # writers of one key are serialised by the store's key lock
        for i in range(rng.randint(2, 4)):
            k = rng.choice(keys)
            kind = rng.choice(("put", "put", "get", "get", "has", "size", "remove", "flush"))
            if kind in ("put", "remove"):
                cand = keys if same_key_writers else [x for x in keys if x not in writers]
                if not cand:
                    kind = "get"
                else:
                    k = rng.choice(cand)
                    writers.add(k)
            if kind == "put":
                th.append(("T%d" % i, "put %s %s" % (k, rng.choice(vals))))
            elif kind == "flush":
                th.append(("T%d" % i, "flush"))
            else:
                th.append(("T%d" % i, "%s %s" % (kind, k)))
        if gc:
            # one cycle of each collector at most: the store runs one goroutine per collector
            g1 = rng.choice(("pgc %d" % rng.randint(20, 90), "igc 1", "igc 0", "igc 0"))
            th.append(("G1", g1))
            if rng.random() < 0.4:
                th.append(("G2", "igc %d" % rng.randint(0, 1) if g1.startswith("pgc") else "pgc %d" % rng.randint(20, 90)))
            if rng.random() < 0.7 and not any(t[1] == "flush" for t in th):
                th.append(("F1", "flush"))
        names = [t[0] for t in th]
        sched = [rng.choice(names) for _ in range(rng.randint(6, 45))]
        limited = rng.random() < 0.25      # rate-limited writers: "every call returns" also on the waiting path
        scen.append("cfg bits=8 imax=%d pmax=%d timeout_ms=3000%s\n" % (imax, pmax, " burst=1 rate=1e-9" if limited else "") + "\n".join(setup) + ("\n" if setup else "") +
                    "".join("thread %s %s\n" % t for t in th) + "schedule " + " ".join(sched) + "\n" + ("free flush\n" if limited or rng.random() < 0.5 else ""))
    return scen

def _lin_check(ctx, gc):
    from . import lin
    prop, tier, wd, rng = ctx["prop"], ctx["tier"], ctx["wd"], ctx["rng"]
    C.go_build(["concdrive"])
    n = 250 if tier == "quick" else 8000
    known = [k for k in load_known() if k.get("status") == "known" and k.get("property") == prop and str(k.get("witness", "")).startswith("scn:")]
    scen, names = [], []
    cdir = os.path.join(C.VERIF, "corpus", prop)
    if os.path.isdir(cdir):
        for fn in sorted(os.listdir(cdir)):
            if fn.endswith(".scn"):
                scen.append(open(os.path.join(cdir, fn)).read()); names.append(fn)
    if ctx.get("replay") and ctx["replay"].endswith(".scn"):
        scen, names, n = [open(ctx["replay"]).read()], [os.path.basename(ctx["replay"])], 0
    gen_s = _conc_scenarios(rng, n, gc)
    scen += gen_s; names += [None] * len(gen_s)
    res = run_conc(scen, wd, "lin")
    viol, nontriv, interleaved = [], set(), 0
    for (txt, r, raw), nm in zip(res, names):
        if r is None:
            raise C.CheckError("concdrive failed: " + raw)
        setup, imm = _parse_scn(txt)
        bad = None
        if r["stuck"] and not confirm_stuck(txt, r, wd):
            continue            # slow, not blocked: nothing can be concluded from this run
        if r["stuck"]:
            bad = "call(s) %s never returned" % r["stuck"]
        else:
            bad = lin.check(setup, r["threads"], r["final"], imm)
            if bad is None:
                for nm2, ff in (("after two further flushes", r.get("final_flushed") or {}), ("after Close and reopen by rescan", r.get("final_reopened") or {}),
                                ("after two further primary GC cycles on the reopened store", r.get("final_collected") or {})):
                    for kh, v in ff.items():
                        if kh in r["final"] and v != r["final"][kh]:
                            bad = "contents changed %s: Get(%s) was %s, now %s" % (nm2, kh, r["final"][kh], v)
                        elif kh not in r["final"] and str(v).startswith("ERR"):
                            bad = "%s: %s %s" % (nm2, kh, v)
        # interleaving actually happened: two threads' events alternate
        seq = [e["t"] for e in (r["events"] or [])]
        switches = sum(1 for a, b in zip(seq, seq[1:]) if a != b)
        if switches >= 3:
            nontriv.add(txt); interleaved += 1
        if bad:
            kf = [k for k in known if nm and k["witness"] == "scn:" + nm]
            if kf:
                print("KNOWN-FINDING: property=%s %s" % (prop, kf[0]["what"]))
                continue
            if len(viol) < 3:
                rp = C.save_replay(prop, "sched-%s.scn" % hashlib.sha1(txt.encode()).hexdigest()[:10], "# %s fails on the implementation: %s\n# replay: cd /verif && ./check %s --replay <this file>\n%s" % (prop, bad, prop, txt))
                viol.append(("schedule: " + bad, rp, True))
        elif nm and any(k["witness"] == "scn:" + nm for k in known):
            pass  # a recorded finding that no longer fails: nothing to report
    mterms = []
    for (txt, r, raw) in res:
        if " model=1" in txt.split("\n")[0]:
            mc = _model_case(txt, r)
            if mc:
                mterms.append((txt, mc))
    mism, coq_s = C.coq_replay(mterms, wd, header="From STH Require Import Lex Index Store Refine Conc Conc2 ConcReplay.\nFrom Coq Require Import List NArith. Import ListNotations. Open Scope N_scope.\n",
                               ctor_list="conc_case", fn="conc_mismatches") if mterms else ([], 0.0)
    gterms = []
    if gc:
        for (txt, r, raw) in res:
            if " gcmodel=" in txt.split("\n")[0]:
                for cache in ((False, True) if " gcmodel=dyn" in txt.split("\n")[0] else (False,)):
                    gcase = _gc_model_case(txt, r, cache)
                    if gcase:
                        gterms.append((txt + ("#cache" if cache else ""), gcase))
    gmism, gcoq_s = C.coq_replay(gterms, wd, header="From STH Require Import Log Conc ConcGC.\nFrom Coq Require Import List NArith. Import ListNotations. Open Scope N_scope.\n",
                                 ctor_list="gc_case", fn="gc_mismatches") if gterms else ([], 0.0)
    # a run of the dynamic family is explained if the model reproduces it under one resolution of the read cache
    bad_names = {n for n, _ in gmism}
    gmism = [(n, x) for n, x in gmism if not ((n.endswith("#cache") and n[:-6] not in bad_names) or (not n.endswith("#cache") and " gcmodel=dyn" in n.split("\n")[0] and n + "#cache" not in bad_names))]
    gscen = len({n[:-6] if n.endswith("#cache") else n for n, _ in gterms})
    if gmism and not viol:
        txt = gmism[0][0]
        rp = C.save_replay(prop, "gccorr-%s.scn" % hashlib.sha1(txt.encode()).hexdigest()[:10],
                           "# correspondence obligation broken: the location-protocol model (coq/theories/ConcGC.v, aexec_tags) run on the schedule observed at the yield points returns other results than the real store\n"
                           "# on %d of %d replayed scenarios; the linearizability oracle found no failing scenario among %d\n%s" % (len(gmism), len(gterms), len(scen), txt))
        viol.append(("correspondence: location-protocol model (primary GC as threads) and implementation disagree on %d of %d scenarios" % (len(gmism), len(gterms)), rp, False))
    if mism and not viol:
        txt = mism[0][0]
        rp = C.save_replay(prop, "conccorr-%s.scn" % hashlib.sha1(txt.encode()).hexdigest()[:10],
                           "# correspondence obligation broken: the atomic-step model (coq/theories/Conc2.v, exec2) run on the schedule observed at the yield points returns other results than the real store\n"
                           "# on %d of %d replayed scenarios; the linearizability oracle found no failing scenario among %d\n%s" % (len(mism), len(mterms), len(scen), txt))
        viol.append(("correspondence: atomic-step model and implementation disagree on %d of %d scenarios" % (len(mism), len(mterms)), rp, False))
    return viol, {"evaluations": len(scen), "distinct_nontrivial": len(nontriv), "scenarios_with_real_interleaving": interleaved,
                  "scenarios_replayed_on_the_atomic_step_model": len(mterms), "traces_validated_against_impl": len(mterms) - len(mism) + gscen - len({n[:-6] if n.endswith("#cache") else n for n, _ in gmism}),
                  "scenarios_replayed_on_the_location_protocol_model": gscen,
                  "correspondence_mismatches": len(mism) + len(gmism), "coq_replay_s": round(coq_s + gcoq_s, 1),
                  "samples": [{"scenario": scen[-1].strip().split("\n")}],
                  "schedule_rule": "2-4 calls (Put/Get/Has/GetSize/Remove/Flush" + (" + 1-2 GC cycles (primary / index) over flushed garbage in small files" if gc else "") +
                                   ") on 2-4 keys of one bucket sharing leading bytes (in 30% of the scenarios several writers may address one key), stepped through the yield points in a random order of 6-45 steps, "
                                   "then run freely; oracle: no call fails or hangs, some linearization consistent with the real-time order explains every result AND the final contents; "
                                   "non-trivial = >= 3 switches between threads in the observed event sequence"}

CHECKS["C05"] = Spec(
    prop_file="C05.v",
    weights=None,
    skeleton="C05",
    witnesses=["F9-lost-wakeup"],
    tools=["witness", "concdrive"],
    rule="see schedule_rule",
    extra=lambda ctx: _lin_check(ctx, False),
)
CHECKS["C06"] = Spec(
    prop_file="C06.v",
    weights=None,
    skeleton=["C06", "C05"],
    witnesses=["F15-reader-removes-current-entry", "F16-relocation-vs-writer"],
    tools=["witness", "concdrive"],
    rule="see schedule_rule",
    extra=lambda ctx: _lin_check(ctx, True),
)
CHECKS["C12"] = Spec(
    prop_file="C12.v",
    weights=None,
    skeleton="C12",
    witnesses=["F9-lost-wakeup"],
    tools=["witness", "concdrive"],
    rule="see schedule_rule",
    extra=_c12_check,
)
def _bs_data(b):
    n = [0, 1, 7, 40, 300, 4096, 13, 64][b % 8]
    d = bytes(((b * 31 + i * 7) & 255) for i in range(n))
    if b % 4 == 2:
        d = bytes([9, 9, 9, 9, b]) + d
    return d

def _bs_check(ctx):
    """C15: sequences of blockstore calls on the real adapter with real CIDs; contract oracle."""
    prop, tier, wd, rng = ctx["prop"], ctx["tier"], ctx["wd"], ctx["rng"]
    C.go_build(["bsdrive"])
    n = 400 if tier == "quick" else 12000
    seqs = []
    cdir = os.path.join(C.VERIF, "corpus", prop)
    if os.path.isdir(cdir):
        for fn in sorted(os.listdir(cdir)):
            if fn.endswith(".bsseq"):
                seqs += [l.strip() for l in open(os.path.join(cdir, fn)) if l.strip() and not l.startswith("#")]
    if ctx.get("replay") and ctx["replay"].endswith(".bsseq"):
        seqs, n = [l.strip() for l in open(ctx["replay"]) if l.strip() and not l.startswith("#")], 0
    def var(b=None):
        b = rng.choice((0, 1, 2, 2, 3, 4, 5, 6, 6, 7, 8, 9, 10, 10, 11, 14, 18)) if b is None else b
        return "%d:%d:%s" % (b, rng.randint(0, 1), rng.choice(("raw", "dagpb", "dagcbor")))
    for _ in range(n):
        ops = []
        # a third of the sequences stay inside what the Coq adapter model covers (one-byte multihash codes, no reopen) and are replayed on it
        inmodel = rng.random() < 0.34
        pool = (0, 1, 2, 2, 4, 6, 6, 8, 9, 10, 10, 12, 14, 18) if inmodel else (0, 1, 2, 2, 3, 4, 5, 6, 6, 7, 8, 9, 10, 10, 11, 14, 18)
        def var(b=None):
            b = rng.choice(pool) if b is None else b
            return "%d:%d:%s" % (b, rng.randint(0, 1), rng.choice(("raw", "dagpb", "dagcbor")))
        for _ in range(rng.randint(4, 30 if inmodel else 40)):
            r = rng.random()
            if inmodel and r >= 0.96:
                r = 0.5
            c = " c" if rng.random() < 0.1 else ""
            if r < 0.25: ops.append("put %s%s" % (var(), c))
            elif r < 0.33: ops.append("putmany %s%s" % (",".join(var() for _ in range(rng.randint(1, 6))), c))
            elif r < 0.38: ops.append("putbad %s %d%s" % (var(), rng.choice(pool), c))
            elif r < 0.60: ops.append("get %s%s" % (var(), c))
            elif r < 0.70: ops.append("has %s%s" % (var(), c))
            elif r < 0.80: ops.append("size %s%s" % (var(), c))
            elif r < 0.88: ops.append("del %s%s" % (var(), c))
            elif r < 0.96: ops.append("hor %d" % rng.randint(0, 1))
            else: ops.append("flush")
        if rng.random() < 0.3:
            # a small primary file limit that the first 1-3 records fill EXACTLY (bsdrive computes it from the real record sizes): the adapter
            # over a store whose write path and flush path have to agree on where a file ends
            ops = ["put %s" % var() for _ in range(rng.randint(2, 5))] + ops
            seqs.append("fill=%d ; " % rng.randint(1, 3) + " ; ".join(ops))
            continue
        seqs.append(" ; ".join(ops))
    parts = C.chunks(seqs, C.NCPU)
    from concurrent.futures import ThreadPoolExecutor
    def one(i):
        inp = os.path.join(wd, "bs%d.in" % i); out = os.path.join(wd, "bs%d.jsonl" % i); coq = os.path.join(wd, "bs%d.coq" % i)
        open(inp, "w").write("\n".join(parts[i]) + "\n")
        p = C.sh([os.path.join(C.BIN, "bsdrive"), inp, out, coq], check=False, timeout=3000, env=dict(os.environ, GOLOG_LOG_LEVEL="fatal"))
        if p.returncode != 0:
            raise C.CheckError("bsdrive failed: " + p.stdout[-2000:])
        terms = []
        for m in re.finditer(r"\(\*SEQ (\d+)\*\)\n(.*?)(?=\(\*SEQ |\Z)", open(coq).read(), flags=re.S):
            terms.append(((i, int(m.group(1))), m.group(2).strip()))
        return [json.loads(l) for l in open(out)], terms
    with ThreadPoolExecutor(len(parts)) as ex:
        both = list(ex.map(one, range(len(parts))))
    outs = [b[0] for b in both]
    bterms = [t for b in both for t in b[1]]
    viol, nontriv = [], set()
    kinds = collections.Counter()
    nbad = 0
    for pi, recs in enumerate(outs):
        byseq = collections.defaultdict(list)
        for r in recs:
            byseq[r["seq"]].append(r)
        for sq, rs in byseq.items():
            m, hor, bad = {}, False, None
            alias = hashbad = False
            for r in rs:
                op, res = r["op"], r["res"]
                kinds[op + ("/cancelled" if r["cancelled"] else "")] += 1
                def fail(msg):
                    return "op %d (%s %s%s): %s" % (r["i"], op, r["arg"], " cancelled" if r["cancelled"] else "", msg)
                if r["cancelled"] and op not in ("hor", "flush"):
                    if res != "ctx":
                        bad = fail("a call with a cancelled context answered %s" % res)
                    if bad: break
                    continue           # no side effect: the map is not updated
                if op in ("put", "putbad"):
                    b = int(r["arg"].split(":")[0])
                    d = _bs_data(b) if op == "put" else _bs_data(int(r["arg"].split()[1]))
                    if res != "ok": bad = fail("Put answered %s" % res)
                    m.setdefault(r["mh"], d)
                elif op == "putmany":
                    if res != "ok": bad = fail("PutMany answered %s" % res)
                    for x, mh in zip(r["arg"].split(","), r.get("mhs") or []):
                        m.setdefault(mh, _bs_data(int(x.split(":")[0])))
                elif op in ("get", "has", "size", "del"):
                    b = int(r["arg"].split(":")[0])
                    key = r["mh"]
                    present = key in m
                    if op == "get":
                        if not present:
                            if res != "notfound": bad = fail("Get of an unknown CID answered %s, expected the IPLD not-found error" % res)
                        elif hor and m[key] != _bs_data(b):
                            hashbad = True
                            if res != "wronghash": bad = fail("hash-on-read is enabled and the stored bytes do not hash to the CID, Get answered %s" % res)
                        else:
                            if res != "ok": bad = fail("Get answered %s" % res)
                            elif bytes.fromhex(r.get("data", "")) != m[key]: bad = fail("Get returned other bytes than were put")
                    elif op == "has":
                        if res != "ok" or r["bool"] != present: bad = fail("Has answered %s %s, block present: %s" % (res, r.get("bool"), present))
                    elif op == "size":
                        if not present:
                            if res != "notfound": bad = fail("GetSize of an unknown CID answered %s" % res)
                        elif res != "ok" or r["size"] != len(m[key]): bad = fail("GetSize answered %s %s, block has %d bytes" % (res, r.get("size"), len(m[key])))
                    elif op == "del":
                        if res != "ok": bad = fail("DeleteBlock answered %s" % res)
                        m.pop(key, None)
                elif op == "hor":
                    hor = r["arg"] == "1"
                elif op == "flush":
                    hor = False      # the sequence reopens the blockstore: a fresh adapter has hash-on-read disabled
                if bad:
                    break
            txt = parts[pi][sq]
            if len(rs) >= 6 and any(r["op"] in ("get", "size") and r["res"] == "ok" for r in rs) and any(r["op"] == "del" for r in rs):
                nontriv.add(txt)
            if bad:
                nbad += 1
                if len(viol) < 3:
                    rp = C.save_replay(prop, "bs-%s.bsseq" % hashlib.sha1(txt.encode()).hexdigest()[:10], "# C15 fails on the implementation: %s\n# replay: cd /verif && ./check C15 --replay <this file>\n%s\n" % (bad, txt))
                    viol.append(("blockstore: " + bad, rp, True))
    mism, coq_s = C.coq_replay(bterms, wd, header="From STH Require Import Lex Index Store Blockstore BlockstoreReplay.\nFrom Coq Require Import List NArith. Import ListNotations. Open Scope N_scope.\n",
                               ctor_list="bs_case", fn="bs_mismatches")
    nmodelled = len([t for t in bterms if t[1]])
    if mism and not viol:
        (pi, si), at = mism[0]
        txt = parts[pi][si]
        rp = C.save_replay(prop, "bscorr-%s.bsseq" % hashlib.sha1(txt.encode()).hexdigest()[:10],
                           "# correspondence obligation broken: the adapter model over the store model (coq/theories/Blockstore.v) and the real HashedBlockstore disagree at call %d of this sequence (%d of %d modelled sequences disagree)\n"
                           "# the contract oracle found no failing sequence among %d\n%s\n" % (at, len(mism), nmodelled, len(seqs), txt))
        viol.append(("correspondence: blockstore model and implementation disagree on %d of %d sequences" % (len(mism), nmodelled), rp, False))
    return viol, {"evaluations": len(seqs), "distinct_nontrivial": len(nontriv), "oracle_failures": nbad, "op_histogram": dict(kinds),
                  "traces_validated_against_impl": nmodelled - len(mism), "correspondence_mismatches": len(mism), "coq_replay_s": round(coq_s, 1),
                  "sequences_replayed_on_the_model": nmodelled,
                  "samples": [{"sequence": seqs[-1]}],
                  "sequence_rule": "4-40 calls of Put / PutMany (1-6 blocks, duplicates allowed) / Put with mismatching bytes / Get / Has / GetSize / DeleteBlock / HashOnRead(on|off) / reopen over 12 blocks "
                                   "(sizes 0,1,7,13,40,64,300,4096; sha2-256, identity, blake2b-256 multihashes) addressed through CIDv0/v1 x raw/dag-pb/dag-cbor variants, 10 % of the calls with a cancelled context; "
                                   "oracle = the contract stated by the property (a map keyed by multihash); non-trivial = >= 6 calls with a successful read and a delete"}

def _close_check(ctx):
    """C17: closedrive scenarios on the real store (goroutine / descriptor / directory census after Close, failed opens, Close while a cycle is parked)."""
    prop, tier, wd, rng = ctx["prop"], ctx["tier"], ctx["wd"], ctx["rng"]
    C.go_build(["closedrive"])
    seeds = [ctx["seed"] * 100 + i for i in range((1 if prop == "C02" else 2) if tier == "quick" else 40)]
    if ctx.get("replay"):
        seeds = seeds[:1] if "close-" in os.path.basename(ctx["replay"]) else []
    from concurrent.futures import ThreadPoolExecutor
    def one(sd):
        p = subprocess.run([os.path.join(C.BIN, "closedrive"), str(sd)], env=dict(os.environ, GOLOG_LOG_LEVEL="fatal"), stdout=subprocess.PIPE, stderr=subprocess.STDOUT, text=True, timeout=900)
        return sd, p.stdout
    with ThreadPoolExecutor(4) as ex:
        outs = list(ex.map(one, seeds))
    viol, n, npass, skipped = [], 0, 0, 0
    names = set()
    for sd, out in outs:
        for line in out.split("\n"):
            m = re.match(r"(\S+) (PASS|FAIL|SKIP) ?(.*)", line)
            if not m:
                continue
            n += 1
            names.add(m.group(1))
            if m.group(2) == "PASS":
                npass += 1
            elif m.group(2) == "SKIP":
                skipped += 1
            elif m.group(3).startswith("contents:") != (prop == "C02"):
                pass        # what a reopen finds after such a Close is C02's matter, everything else C17's (oracles are per property)
            elif len(viol) < 3:
                rp = C.save_replay(prop, "close-%s-%d.txt" % (m.group(1), sd), prop + " fails on the implementation: scenario %s (seed %d): %s\nreplay: cd /verif && build/bin/closedrive %d %s\n" % (m.group(1), sd, m.group(3), sd, m.group(1)))
                viol.append(("closedrive %s: %s" % (m.group(1), m.group(3)), rp, True))
    return viol, {"evaluations": n, "distinct_nontrivial": len(names), "scenarios_passed": npass, "scenarios_skipped": skipped,
                  "samples": [{"scenarios": sorted(names)}],
                  "scenario_rule": "open/Start/150 random calls/Close x4 with 10 ms GC and 4 ms sync intervals; Close without Start; 5 kinds of failing open x3; Close issued while the real background "
                                   "primary collector is parked at gc.reap.beforeUpdateIndex / gc.afterFreeList and the index collector at index.gc.beforeReap (Close must block until released); Close while a "
                                   "rate-limited writer waits; after each: no goroutine of the module alive (stack dump), no descriptor into the store directory (/proc/self/fd), directory unchanged for 3 GC intervals; "
                                   "(C02) after a Close that overlapped a primary GC cycle the store is reopened by rescan and every key read back"}

CHECKS["C17"] = Spec(
    prop_file="C17.v",
    weights=None,
    skeleton="C17",
    witnesses=["F17-close-vs-relocation"],
    tools=["witness", "closedrive"],
    rule="see scenario_rule",
    extra=_close_check,
)
def _leg_check(ctx):
    """C10: generated legacy stores upgraded by the real code (uninterrupted and interrupted+resumed), contents oracle, fsck, and the chunk/remap arithmetic replayed on the model."""
    prop, tier, wd, rng = ctx["prop"], ctx["tier"], ctx["wd"], ctx["rng"]
    C.go_build(["legdrive"])
    n = 160 if tier == "quick" else 5000
    lines = []
    cdir = os.path.join(C.VERIF, "corpus", prop)
    if os.path.isdir(cdir):
        for fn in sorted(os.listdir(cdir)):
            if fn.endswith(".legcase"):
                lines += [l.strip() for l in open(os.path.join(cdir, fn)) if l.strip() and not l.startswith("#")]
    if ctx.get("replay") and ctx["replay"].endswith(".legcase"):
        lines, n = [l.strip() for l in open(ctx["replay"]) if l.strip() and not l.startswith("#")], 0
    for _ in range(n):
        lines.append("%d %d %d %d" % (rng.randint(1, 10**9), rng.choice((8, 9, 12, 16)), rng.choice((1, 40, 64, 100, 300, 1 << 20)),
                                      rng.choice((1, 24, 32, 40, 48, 60, 64, 100, 128, 300, 1 << 20))))
    parts = C.chunks(lines, C.NCPU)
    from concurrent.futures import ThreadPoolExecutor
    def one(i):
        inp = os.path.join(wd, "leg%d.in" % i)
        open(inp, "w").write("\n".join(parts[i]) + "\n")
        p = C.sh([os.path.join(C.BIN, "legdrive"), inp, os.path.join(wd, "leg%d.coq" % i), os.path.join(wd, "leg%d.jsonl" % i)], check=False, timeout=3000, env=dict(os.environ, GOLOG_LOG_LEVEL="fatal"))
        if p.returncode != 0:
            raise C.CheckError("legdrive failed: " + p.stdout[-2000:])
        terms = []
        txt = open(os.path.join(wd, "leg%d.coq" % i)).read()
        for m in re.finditer(r"\(\*CASE (\d+)\*\)\n(.*?)(?=\(\*CASE |\Z)", txt, flags=re.S):
            terms.append(((i, int(m.group(1))), m.group(2).strip()))
        return terms, [json.loads(l) for l in open(os.path.join(wd, "leg%d.jsonl" % i))]
    with ThreadPoolExecutor(len(parts)) as ex:
        outs = list(ex.map(one, range(len(parts))))
    viol, nontriv, nbad = [], set(), 0
    for pi, (_, recs) in enumerate(outs):
        for r in recs:
            if r["chunk_files"] >= 3 and r["keys"] >= 2:
                nontriv.add(r["line"])
            if r["phase"] != "ok":
                nbad += 1
                if len(viol) < 3:
                    rp = C.save_replay(prop, "leg-%s.legcase" % hashlib.sha1(r["line"].encode()).hexdigest()[:10],
                                       "# C10 fails on the implementation: %s: %s\n# (line = seed, index bits, new index file size, new primary file size)\n# replay: cd /verif && ./check C10 --replay <this file>\n%s\n" % (r["phase"], r.get("bad"), r["line"]))
                    viol.append(("legacy upgrade: %s: %s" % (r["phase"], r.get("bad")), rp, True))
    terms = [t for o in outs for t in o[0]]
    mism, coq_s = C.coq_replay(terms, wd, header="From STH Require Import Log Chunk ChunkReplay.\nFrom Coq Require Import List NArith. Import ListNotations. Open Scope N_scope.\n",
                               ctor_list="chunk_case", fn="chunk_mismatches")
    if mism and not viol:
        (pi, ci), _ = mism[0]
        line = parts[pi][ci]
        rp = C.save_replay(prop, "legcorr-%s.legcase" % hashlib.sha1(line.encode()).hexdigest()[:10],
                           "# correspondence obligation broken: the chunk files / remapped offsets of the real upgrade differ from chunks/remap of coq/theories/Chunk.v on %d of %d cases;\n"
                           "# the contents oracle found no failing legacy store among %d\n%s\n" % (len(mism), len(terms), len(lines), line))
        viol.append(("correspondence: upgrade arithmetic differs from the model on %d of %d cases" % (len(mism), len(terms)), rp, False))
    # "if the conversion is interrupted at any step": process crashes at every file-system step of a conversion
    from . import crash
    LD = os.path.join(C.BIN, "legdrive")
    cpoints, ctorn, ccalls, cstores = 0, 0, 0, 0
    if not ctx.get("replay") or ctx["replay"].endswith(".legcrash"):
        cases = []
        cdir2 = os.path.join(C.VERIF, "corpus", prop)
        if os.path.isdir(cdir2):
            for fn in sorted(os.listdir(cdir2)):
                if fn.endswith(".legcrash"):
                    cases += [l.split() for l in open(os.path.join(cdir2, fn)) if l.strip() and not l.startswith("#")]
        if ctx.get("replay"):
            cases = [l.split() for l in open(ctx["replay"]) if l.strip() and not l.startswith("#")]
        else:
            for _ in range(1 if tier == "quick" else 8):
                cases.append([str(rng.randint(1, 10**6)), str(rng.choice((8, 12))), str(rng.choice((60, 100, 300))), str(rng.choice((80, 100, 120)))])
        for seed_s, bits_s, imax_s, pmax_s in cases:
            tdir = os.path.join(wd, "legcrash-%s" % seed_s); shutil.rmtree(tdir, ignore_errors=True); os.makedirs(tdir)
            tpl, want = os.path.join(tdir, "legacy"), os.path.join(tdir, "want.json")
            os.makedirs(tpl)
            C.sh([LD, "prep", seed_s, bits_s, tpl, want], env=dict(os.environ, GOLOG_LOG_LEVEL="fatal"))
            np_, nt_, fails, nc_ = crash.enumerate_generic(tpl, lambda d: [LD, "upgrade", d, bits_s, imax_s, pmax_s],
                                                           lambda d: [LD, "verify", d, bits_s, imax_s, pmax_s, want], os.path.join(tdir, "enum"), rng,
                                                           max_points=(40 if tier == "quick" else None), torn=(tier != "quick"))
            cpoints += np_; ctorn += nt_; ccalls += nc_; cstores += 1
            for f in fails[:2]:
                if len(viol) < 3:
                    rp = C.save_replay(prop, "legcrash-%s.legcrash" % seed_s,
                                       "# C10 fails on the implementation: a conversion interrupted by a process crash: %s\n# crash point: %s\n# directory image: %s\n"
                                       "# (line = seed, index bits, new index file size, new primary file size)   replay: cd /verif && ./check C10 --replay <this file>\n%s %s %s %s\n"
                                       % (f["bad"], f["what"], f["image"], seed_s, bits_s, imax_s, pmax_s))
                    viol.append(("crash enumeration of a conversion: %s [%s]" % (f["bad"], f["what"]), rp, True))
    return viol, {"evaluations": len(lines) + cpoints + ctorn, "distinct_nontrivial": len(nontriv), "traces_validated_against_impl": len(terms) - len(mism),
                  "conversions_enumerated_for_crashes": cstores, "crash_points": cpoints, "torn_write_variants": ctorn, "file_system_calls_traced": ccalls,
                  "correspondence_mismatches": len(mism), "oracle_failures": nbad, "cases_with_dangling_index_entries": sum(1 for _, rs in outs for r in rs if r.get("dangling_keys")),
                  "samples": [{"case": lines[-1]}], "coq_replay_s": round(coq_s, 1),
                  "case_rule": "a store written by the current code into single huge files (3-12 keys sharing bucket bits and prefixes, 5-45 puts/overwrites/removals/flushes) is re-packaged as a "
                               "version-2 single-file index, a bare single-file primary and a freelist with its pending entries; it is opened with new limits (index 1..2^20, primary 1..2^20 incl. limits that "
                               "records hit exactly) uninterrupted and interrupted after 0,1,2,3,5,8,13 context polls then resumed; every key is compared with the expected map after the upgrade and after a reopen; "
                               "fsck on the upgraded files; chunk sizes and remapped offsets compared with the model; non-trivial = >= 3 chunk files and >= 2 live keys; "
                               "process crashes: the conversion of a legacy store (the corpus store on which F26 was found plus generated ones) runs in a child under strace, SIGKILL on entering "
                               "every file-system call behind a mutating one (quick: 40 points; thorough: all, with torn writes), each image is opened again by the real code and every key compared, twice"}

CHECKS["C10"] = Spec(
    prop_file="C10.v",
    weights=None,
    skeleton="C10",
    tools=["witness", "legdrive"],
    rule="see case_rule",
    extra=_leg_check,
)
def _race_check(ctx):
    """C16: regenerate the lock table from /repo, discharge table_ok in Coq; run the mixed workload under the race detector."""
    prop, tier, wd, rng = ctx["prop"], ctx["tier"], ctx["wd"], ctx["rng"]
    C.go_build(["skel"])
    gen = os.path.join(C.BUILD, "gen"); os.makedirs(gen, exist_ok=True)
    outv, outj = os.path.join(gen, "LockTableGen.v"), os.path.join(gen, "locktable.json")
    p = C.sh([os.path.join(C.BIN, "skel"), "locktable", C.REPO, os.path.join(C.HARNESS, "cmd", "skel", "exempt.txt"), outv, outj], check=False)
    if p.returncode != 0:
        raise C.CheckError("skel failed: " + p.stdout[-2000:])
    tbl = json.load(open(outj))
    pc = C.sh(["timeout", "600", "coqc", "-Q", os.path.join(C.COQ, "theories"), "STH", "-Q", gen, "STHGen", outv], cwd=gen, check=False)
    table_ok = pc.returncode == 0
    viol = []
    # the race detector on the mixed workload (validation of the translator on every run; the search when table_ok fails)
    C.go_build(["racedrive"], race=True)
    seeds = [ctx["seed"] * 10 + i for i in range(2 if tier == "quick" and table_ok else (6 if tier == "quick" else 40))]
    ms = 1500 if tier == "quick" else 4000
    from concurrent.futures import ThreadPoolExecutor
    def one(sd):
        try:
            r = subprocess.run([os.path.join(C.BIN, "racedrive-race"), str(sd), str(ms)], env=dict(os.environ, GOLOG_LOG_LEVEL="fatal", GORACE="halt_on_error=0 exitcode=66"),
                               stdout=subprocess.PIPE, stderr=subprocess.STDOUT, text=True, timeout=300)
        except subprocess.TimeoutExpired as e:
            # a call of the workload never returned: not a data race in itself (that is C05 / C12's matter) - what the detector printed so far still counts
            return sd, -9, (e.stdout or b"").decode(errors="replace") if isinstance(e.stdout, (bytes, bytearray)) else (e.stdout or "")
        return sd, r.returncode, r.stdout
    with ThreadPoolExecutor(4) as ex:
        outs = list(ex.map(one, seeds))
    races, nops = [], 0
    for sd, rc, out in outs:
        m = re.search(r"ops: (\d+)", out)
        nops += int(m.group(1)) if m else 0
        if "WARNING: DATA RACE" in out:
            rep = out[out.index("WARNING: DATA RACE"):]
            rep = rep[:rep.find("==================", 10) if "==================" in rep[10:] else 3000]
            frames = [l.strip() for l in rep.split("\n") if "go-storethehash/store" in l and "(" in l]
            races.append((sd, frames[:2], rep[:3500]))
        elif rc not in (0, 66, -9):
            races.append((sd, ["workload crashed (exit %d)" % rc], out[-2500:]))
    if races:
        sd, frames, rep = races[0]
        rp = C.save_replay(prop, "race-%d.txt" % sd, "C16 fails on the implementation: the race detector reports a data race (or the workload crashed) in the mixed workload, seed %d\n"
                           "replay: cd /verif && GORACE=halt_on_error=0 build/bin/racedrive-race %d %d\nlock table: inconsistent fields %s\n\n%s\n" % (sd, sd, ms, tbl["inconsistent"], rep))
        viol.append(("data race: %s" % " vs ".join(frames), rp, True))
    elif not table_ok:
        rp = C.save_replay(prop, "locktable.txt", "regenerated proof obligation broken: Lemma table_ok (build/gen/LockTableGen.v) does not check.\n"
                           "fields whose accesses no longer share their guard locks: %s\nrows:\n%s\ncoqc said:\n%s\n"
                           "the race detector found no race in %d runs of the mixed workload\n" %
                           (tbl["inconsistent"], "\n".join("  %s %s in %s holding %s (%s)" % (r["Kind"], r["Field"], r["Fn"], r["Locks"], r["Pos"].split("/")[-1]) for r in tbl["rows"] if r["Field"] in tbl["inconsistent"]),
                            pc.stdout[-800:], len(seeds)))
        viol.append(("lock table: accesses of %s are no longer covered by their guard locks" % tbl["inconsistent"], rp, False))
    return viol, {"evaluations": len(seeds) + 1, "distinct_nontrivial": len(tbl["fields"]), "lock_table_fields": len(tbl["fields"]), "lock_table_rows": len(tbl["rows"]),
                  "lock_table_consistent": table_ok, "guard_sets": tbl["guards"], "exemptions": tbl["exempt"], "race_detector_runs": len(seeds), "race_detector_ops": nops,
                  "regenerated_obligation": "table_ok : table_consistent generated_guard generated_table = true (vm_compute) - " + ("discharged" if table_ok else "FAILED"),
                  "samples": [{"row": r} for r in tbl["rows"][:3]],
                  "table_rule": "cmd/skel walks every method of the structs that own a mutex (go/ast): per receiver-reachable field access, the locks held (Lock/RLock add, Unlock removes, defer keeps, "
                                "branches restore, unexported helpers inherit the intersection over their call sites); fields never written outside constructors are immutable; the guard set of a field = "
                                "locks every write holds exclusively, every read must hold one of them; exemptions are listed with reasons; the race detector runs the mixed workload (4 writers/readers, "
                                "Flush, storage sizes, cache resizing, both collectors, rate-limited path, background flusher) as validation"}

CHECKS["C16"] = Spec(
    prop_file="C16.v",
    weights=None,
    tools=["witness"],
    rule="see table_rule",
    extra=_race_check,
)
CHECKS["C15"] = Spec(
    prop_file="C15.v",
    weights=None,
    witnesses=["F6-hash-on-read-disabled"],
    tools=["witness", "bsdrive"],
    rule="see sequence_rule",
    extra=_bs_check,
)
CHECKS["C14"] = Spec(
    prop_file="C14.v",
    weights=None,
    skeleton="C14",
    witnesses=["F7-filecache-untracked-handle", "F18-filecache-shrink-after-zero"],
    tools=["witness", "fcdrive"],
    rule="operation sequences on the real store/filecache with real files: Open of 4 names, Close of a held reference (protocol-obeying by construction), Remove, Clear, "
         "SetCacheSize in 0..3, starting capacity 0..3, 4-60 operations (thorough: additionally ALL sequences of <= 5 operations over 9 operation kinds x capacities 0,1,2); after every operation: "
         "result, which handles ever returned are open at the OS, Len, Cap compared with the model; oracle on the real trace: every lent handle open, descriptors <= capacity + distinct lent, "
         "no Close error; non-trivial = a resize/remove/clear while a handle is lent after >= 3 operations; distinct by sequence text",
    extra=_fc_check,
)
def _c07_conc(ctx):
    """C07 over schedules: callers, flushes and collector cycles stepped through the yield points (the scenario families of C06); when everything
    has ended and both pools are written, and again after Close and a reopen by rescan, the independent reader of the formats judges the real files."""
    prop, tier, wd, rng = ctx["prop"], ctx["tier"], ctx["wd"], ctx["rng"]
    C.go_build(["concdrive"])
    scen = []
    cdir = os.path.join(C.VERIF, "corpus", prop)
    if os.path.isdir(cdir):
        for fn in sorted(os.listdir(cdir)):
            if fn.endswith(".scn"):
                scen.append(open(os.path.join(cdir, fn)).read())
    n = 70 if tier == "quick" else 3000
    if ctx.get("replay") and ctx["replay"].endswith(".scn"):
        scen, n = [open(ctx["replay"]).read()], 0
    elif ctx.get("replay"):
        return [], {}
    # half of them from the flush-versus-index-GC family: the files are at stake when a cycle meets a Flush that rolls over to a new index file
    scen += _conc_scenarios(rng, n // 2, True) + _conc_scenarios(rng, n - n // 2, True, fam_range=(0.4, 0.6))
    # a thread that does not reach its next yield point within quiet_ms counts as blocked and the scheduler moves on: on a loaded machine the default of
    # 25 ms lets a running collector fall behind and the schedule degenerates (nothing overlaps) - here the files are judged, not the timing
    scen = [t if "quiet_ms=" in t.split("\n")[0] else t.replace("\n", " quiet_ms=250\n", 1) for t in scen]
    res = run_conc(scen, wd, "c07conc", proc_timeout=180)
    viol, judged, with_gc = [], 0, 0
    for txt, r, raw in res:
        if r is None:
            raise C.CheckError("concdrive failed: " + raw)
        if r["stuck"] or r.get("fsck_flushed", "not run") == "not run":
            continue            # a call that does not return is C05's / C06's matter
        judged += 1
        if any(e.get("point", "").startswith(("index.gc", "gc.")) for e in r.get("events", []) if isinstance(e, dict)):
            with_gc += 1
        bad = r["fsck_flushed"] and ("after the schedule and two flushes: " + r["fsck_flushed"])
        if not bad and r.get("fsck_reopened", "not run") not in ("", "not run"):
            bad = "after the schedule, Close and reopen by rescan: " + r["fsck_reopened"]
        if bad and len(viol) < 3:
            rp = C.save_replay(prop, "sched-%s.scn" % hashlib.sha1(txt.encode()).hexdigest()[:10],
                               "# %s fails on the implementation: the format reader on the real files %s\n# replay: cd /verif && ./check %s --replay <this file>\n%s" % (prop, bad, prop, txt))
            viol.append(("schedule: C07 on the real files " + bad, rp, True))
    return viol, {"evaluations": len(scen), "distinct_nontrivial": judged, "concurrent_scenarios_judged_by_the_format_reader": judged,
                  "samples": [{"scenario": scen[-1].strip().split("\n")}],
                  "concurrency_rule": "the scenario families of C06 (callers, Flush, index and primary GC cycles as threads stepped through the yield points: relocation-targeted, "
                                      "flush-vs-index-GC incl. a whole cycle inside the flush window, readers across overwrite + flush + GC, random mixes with small file limits); "
                                      "after the end and two flushes, and again after Close and a reopen that rebuilds the table by scanning, harness/fsck reads the real files"}


def _c07_extra(ctx):
    if ctx.get("replay") and ctx["replay"].endswith(".scn"):
        return _c07_conc(ctx)
    v1, c1 = _crash_enum(dict(ctx, crash_small=True))
    if ctx.get("replay"):
        return v1, c1
    v2, c2 = _c07_conc(ctx)
    cov = dict(c1)
    for k, v in c2.items():
        if k in ("evaluations", "distinct_nontrivial"):
            cov[k] = cov.get(k, 0) + v
        elif k == "samples":
            cov[k] = cov.get(k, []) + v
        else:
            cov[k] = v
    return v1 + v2, cov


CHECKS["C07"] = Spec(
    prop_file="C07.v",
    weights=dict(put=36, get=4, remove=14, flush=14, atflush=3, igc=9, pgc=9, reopen=5, rebits=1),
    gen_kw=dict(pmax_choices=(1, 60, 100, 300), imax_choices=(1, 40, 64, 100, 150, 300), imm_p=0.1),
    igc_merge_p=0.08,
    variants=[(0.3, dict(weights=dict(put=30, remove=8, flush=30, igc=22, get=4, pgc=4, reopen=3),
                         gen_kw=dict(imax_choices=(52, 64, 76, 100, 150), pmax_choices=(300, 1 << 30), first=(3, 4, 5, 6, 7, 8), nops=(30, 80)))),
              (0.3, dict(weights=dict(put=40, remove=14, flush=12, pgc=5, pgcl=7, pgcb=2, igcb=8, igc=4, reopen=3)))],
    keep=("res", "tbl", "img"),
    aspects=("map", "fsck", "dir", "rl"),
    tools=["sthdrive", "witness", "crashdrive", "concdrive"],
    extra=_c07_extra,    # "after recovery from any crash": the independent reader runs on what every crash point leaves; "schedules": and on what concurrent schedules leave
    nontrivial=lambda t, r: _count_ops(t, ("flush",)) >= 2 and _count_ops(t, ("pgc", "igc", "pgcb", "igcb", "pgcl")) >= 1 and _count_ops(t, ("put",)) >= 4,
    rule=_KEYS_RULE + "flushes, both collectors (also budget-interrupted), reopen, writers slipping into a Flush; after every Flush, every GC cycle and every reopen an independent reader "
         "of the formats (harness/fsck) checks on the REAL files against the live bucket table: every file is a chain of records; every non-empty bucket points at a complete, non-deleted "
         "record list tagged with it in an existing file >= FirstFile; entries sorted, prefix-free, distinct locations; every entry names a complete, non-deleted primary record of the right size "
         "whose key carries the bucket bits and the stored prefix, in a file >= FirstFile; no such location is on the freelist; byte images and tables are also compared with the model; "
         "non-trivial = >= 2 flushes, >= 1 GC cycle, >= 4 puts",
)
def _c13_scenarios(rng, n):
    scen = []
    vals = ["61", "6262", "636363", "6464646464646464"]
    for _ in range(n):
        if rng.random() < 0.15:
            scen.append(_orphan_relocation_scenario(rng))
            continue
        if rng.random() < 0.18:
            # a location is freed while a Flush stands between taking the freelist entries off the pool and writing them
            ks = rng.sample(CKEYS, 3)
            setup = ["setup put %s %s" % (k, rng.choice(vals)) for k in ks] + ["setup flush"]
            th = [("T0", rng.choice(("put %s 7a7a" % ks[0], "remove %s" % ks[0]))), ("F1", "flush"),
                  ("T1", rng.choice(("put %s 7b7b7b" % ks[1], "remove %s" % ks[1])))]
            if rng.random() < 0.5:
                th.append(("T2", rng.choice(("put %s 7c" % ks[2], "remove %s" % ks[2]))))
            sched = ["T0"] * 8 + ["F1"] * 4 + ["T1"] * 8 + (["T2"] * 8 if len(th) > 3 else []) + ["F1"] * 4
            if rng.random() < 0.3:
                sched = ["T0"] * 8 + ["F1"] * rng.randint(1, 5) + [rng.choice([t[0] for t in th]) for _ in range(rng.randint(6, 30))]
            scen.append("cfg bits=8 imax=1048576 pmax=1048576 timeout_ms=3000\n" + "\n".join(setup) + "\n" +
                        "".join("thread %s %s\n" % t for t in th) + "schedule " + " ".join(sched) + "\n")
            continue
        if rng.random() < 0.5:
            # a writer of K overlaps the relocation of K's record out of a low-use primary file
            K = "1206070707090909"
            others = ["12060707070%d0%d0%d" % (i, i, i) for i in range(1, 7)]
            nsup = rng.choice((3, 4, 6))
            pmax = {3: 100, 4: 130, 6: 190}[nsup]
            setup = ["setup put %s %s" % (o, "61" * 18) for o in others[:nsup]] + ["setup put %s %s" % (K, "31" * 18), "setup flush"] + \
                    ["setup put %s %s" % (o, "41" * 18) for o in others[:nsup]] + ["setup flush"]
            th = [("T0", rng.choice(("remove %s" % K, "put %s %s" % (K, "32" * 18), "put %s 3233" % K))), ("G1", "pgc %d" % rng.choice((25, 50, 60)))]
            if rng.random() < 0.4:
                th.append(("T1", rng.choice(("put %s 3435" % K, "remove %s" % K, "get %s" % K, "flush"))))
            names = [t[0] for t in th]
            if rng.random() < 0.5:
                sched = ["T0"] * rng.choice((2, 3)) + ["G1"] * 20 + [rng.choice(names) for _ in range(10)]
            else:
                sched = [rng.choice(names) for _ in range(rng.randint(6, 40))]
        else:
            # several writers of one key
            pool = rng.sample(CKEYS, 2)
            K = pool[0]
            pmax = rng.choice((30, 60, 1048576))
            setup = ["setup put %s %s" % (k, rng.choice(vals)) for k in pool if rng.random() < 0.7]
            if setup and rng.random() < 0.6:
                setup.append("setup flush")
            th = []
            for i in range(rng.randint(2, 3)):
                th.append(("T%d" % i, rng.choice(("put %s %s" % (K, rng.choice(vals)), "put %s %s" % (K, rng.choice(vals)), "remove %s" % K))))
            if rng.random() < 0.4:
                th.append(("F1", "flush"))
            if rng.random() < 0.3:
                th.append(("G1", "pgc %d" % rng.randint(20, 90)))
            names = [t[0] for t in th]
            sched = [rng.choice(names) for _ in range(rng.randint(6, 40))]
        scen.append("cfg bits=8 imax=1048576 pmax=%d timeout_ms=3000\n" % pmax + "\n".join(setup) + ("\n" if setup else "") +
                    "".join("thread %s %s\n" % t for t in th) + "schedule " + " ".join(sched) + "\n")
    return scen


def _c13_conc(ctx):
    """C13 under concurrency: writers that overlap each other or the relocation of their record; after everything has ended, been flushed,
    closed and reopened, the census of the real files is judged: no location on the freelist twice, none that is current, and every live
    primary record is current or on the freelist (nothing leaked)."""
    from . import oracles
    prop, tier, wd, rng = ctx["prop"], ctx["tier"], ctx["wd"], ctx["rng"]
    C.go_build(["concdrive"])
    scen, names = [], []
    cdir = os.path.join(C.VERIF, "corpus", prop)
    if os.path.isdir(cdir):
        for fn in sorted(os.listdir(cdir)):
            if fn.endswith(".scn"):
                scen.append(open(os.path.join(cdir, fn)).read()); names.append(fn)
    n = 80 if tier == "quick" else 3000
    if ctx.get("replay") and ctx["replay"].endswith(".scn"):
        scen, names, n = [open(ctx["replay"]).read()], [os.path.basename(ctx["replay"])], 0
    elif ctx.get("replay"):
        return [], {}
    scen += _c13_scenarios(rng, n)
    res = run_conc(scen, wd, "c13conc")
    viol, judged, superseding = [], 0, 0
    for txt, r, raw in res:
        if r is None:
            raise C.CheckError("concdrive failed: " + raw)
        if r["stuck"] or not r.get("census"):
            continue            # a call that does not return is C05's / C06's matter
        judged += 1
        cz = r["census"]
        if len(cz["free_file"]) + len(cz["free_gc"]) + sum(len(v) for v in cz["dead"].values()) > 0:
            superseding += 1
        bad = oracles.dir_invariants(cz, quiescent=True)
        if bad and bad.startswith("C13") and len(viol) < 3:
            rp = C.save_replay(prop, "sched-%s.scn" % hashlib.sha1(txt.encode()).hexdigest()[:10],
                               "# %s fails on the implementation: %s\n# replay: cd /verif && ./check %s --replay <this file>\n%s" % (prop, bad, prop, txt))
            viol.append(("schedule: " + bad, rp, True))
    return viol, {"evaluations": len(scen), "distinct_nontrivial": superseding, "concurrent_scenarios_judged_by_the_freelist_census": judged,
                  "samples": [{"scenario": scen[-1].strip().split("\n")}],
                  "concurrency_rule": "a writer of K overlapping the relocation of K's record by a primary GC cycle, a Put of a new key whose record a cycle tries to relocate before it is indexed, "
                                      "a free that arrives while a Flush writes the freelist, or 2-3 writers of one key (Put/Remove), stepped through the "
                                      "yield points in a random order; after the end, two flushes, Close and reopen the real files are read: freelist entries distinct, none current, "
                                      "every live primary record current or on the freelist; non-trivial = at least one location was superseded"}


CHECKS["C13"] = Spec(
    prop_file="C13.v",
    weights=dict(put=40, get=4, remove=16, flush=12, atflush=4, pgc=9, pgcb=0, igc=2, reopen=4),
    gen_kw=dict(pmax_choices=(1, 60, 100, 300, 1 << 30), imm_p=0.3),
    variants=[(0.25, dict(weights=dict(put=40, get=4, remove=16, flush=14, pgc=6, pgcl=6, pgcb=3, igc=1, reopen=3)))],
    keep=("res", "img"),
    aspects=("map", "dir"),
    witnesses=["C13-freelist-exact", "F12b-writer-inside-commit-then-crash"],
    skeleton=["C06", "C05", "C13"],      # the concurrency theorem of C13 rests on the key lock (wf_C05) and the compare-and-swap protocol (wf_C06); the hand-over model on wf_C13
    tools=["sthdrive", "witness", "concdrive"],
    extra=_c13_conc,
    nontrivial=lambda t, r: _count_ops(t, ("flush",)) >= 1 and any(((x.get("extra") or {}).get("blk_before") or "") != "" and (x.get("extra") or {}).get("blk_after") != (x.get("extra") or {}).get("blk_before") for x in r),
    rule=_KEYS_RULE + "overwrites, identical re-puts, rejected immutable puts, removals of present and absent keys, flushes, primary GC (hand-over of the freelist file) "
         "and reopen; the freelist file image is compared byte for byte with the model after every flush/GC, and on the real files: no duplicate entry, "
         "no entry naming a current location; non-trivial = >= 1 flush and >= 1 operation that superseded a location",
)
def _c11_conc(ctx):
    """C11 over schedules: a writer or reader of K overlapping the relocation of K's record by a primary GC cycle (and the other families of C06);
    afterwards everything is removed and flushed, and after four further cycles every primary file but the current one must be empty or unlinked."""
    prop, tier, wd, rng = ctx["prop"], ctx["tier"], ctx["wd"], ctx["rng"]
    C.go_build(["concdrive"])
    scen = []
    cdir = os.path.join(C.VERIF, "corpus", prop)
    if os.path.isdir(cdir):
        for fn in sorted(os.listdir(cdir)):
            if fn.endswith(".scn"):
                scen.append(open(os.path.join(cdir, fn)).read())
    n = 60 if tier == "quick" else 3000
    if ctx.get("replay") and ctx["replay"].endswith(".scn"):
        scen, n = [open(ctx["replay"]).read()], 0
    elif ctx.get("replay"):
        return [], {}
    # relocation-targeted (0.2-0.4) and orphan-relocation (0.6-0.64) families, and a third from the general mix
    scen += _conc_scenarios(rng, n // 2, True, fam_range=(0.2, 0.4)) + _conc_scenarios(rng, n // 6, True, fam_range=(0.6, 0.64)) + _conc_scenarios(rng, n - n // 2 - n // 6, True)
    def cfgline(t):
        first, rest = t.split("\n", 1)
        first = re.sub(r" gcmodel=\S+", "", first)
        first = re.sub(r" quiet_ms=\d+", "", first) + " quiet_ms=250"     # the model-replay families wait 3 s per blocked step; here only the files are judged
        return first + " drain=1\n" + rest
    # rate-limited stores are left out: the drain phase writes through the reopened store, whose limiter would make its own Puts wait for a flush
    scen = [t for t in scen if " rate=" not in t.split("\n")[0]]
    scen = [t if " drain=1" in t.split("\n")[0] else cfgline(t) for t in scen]
    res = run_conc(scen, wd, "c11conc", proc_timeout=180)
    viol, judged = [], 0
    for txt, r, raw in res:
        if r is None:
            raise C.CheckError("concdrive failed: " + raw)
        if r["stuck"] or r.get("drain_leftover") is None:
            continue            # a call that does not return is C05's / C06's matter
        judged += 1
        if r["drain_leftover"] and len(viol) < 3:
            bad = "after the schedule everything was removed and flushed, yet after four primary GC cycles these non-current primary files still hold bytes: %s" % ", ".join(sorted(r["drain_leftover"]))
            rp = C.save_replay(prop, "sched-%s.scn" % hashlib.sha1(txt.encode()).hexdigest()[:10],
                               "# %s fails on the implementation: %s\n# replay: cd /verif && ./check %s --replay <this file>\n%s" % (prop, bad, prop, txt))
            viol.append(("schedule: C11: " + bad, rp, True))
    return viol, {"evaluations": len(scen), "distinct_nontrivial": judged, "concurrent_scenarios_judged_by_the_drain": judged,
                  "samples": [{"scenario": scen[-1].strip().split("\n")}],
                  "concurrency_rule": "callers of K overlapping the relocation of K's record by a primary GC cycle, a Put of a new key whose record a cycle tries to relocate before it is "
                                      "indexed, and C06's general mix, stepped through the yield points; then fillers (the write position moves on by more than a file), every key removed, "
                                      "flush, four primary cycles with flushes: every primary file but the current one must be empty or unlinked (a record that no caller and no "
                                      "freelist entry accounts for keeps its file alive)"}


CHECKS["C11"] = Spec(
    prop_file="C11.v",
    quick_n=120, thorough_n=1200,      # every history ends with a drain phase of ~10 cycles, each followed by byte images of all files: the replay is the expensive part
    weights=dict(put=36, remove=18, flush=12, pgc=14, igc=10, get=4, reopen=2),
    gen_kw=dict(pmax_choices=(1, 60, 100, 300), imax_choices=(1, 40, 100, 300), imm_p=0.0),
    # time-limited cycles before the drain: a cycle stopped by its limit must not make a later cycle skip work (resume cursor, visited / affected sets)
    variants=[(0.35, dict(weights=dict(put=36, remove=18, flush=14, pgc=7, pgcl=11, igc=5, igcb=7, get=2)))],
    keep=("res", "img", "tbl"),
    nontrivial=lambda t, r: _count_ops(t, ("pgc", "pgcl")) >= 2 and _count_ops(t, ("igc", "igcb")) >= 1 and _count_ops(t, ("remove", "put")) >= 5,
    rule=_KEYS_RULE + "small file limits; removals/overwrites then GC cycles; file images and tables compared with the model after each cycle; "
         "every generated history ends with a drain phase (remove everything, flush, 3 primary + 2 index cycles) after which every non-current file must "
         "be empty or unlinked and a further cycle must write nothing",
    tail="drain",
    extra_oracle=oracles.c11_drain,
    tools=["sthdrive", "witness", "concdrive"],
    extra=_c11_conc,
)

# ------------------------------------------------------------------------------------------------ flow
def project(term, keep):
    """Drop the observations a property is not about from a case term (one observation per line)."""
    out = []
    for line in term.split("\n"):
        s = line.strip()
        if s.startswith("(YX XObserve") and "tbl" not in keep:
            continue
        if s.startswith("(YX XImage") and "img" not in keep:
            continue
        if s.startswith("(YCrash") and "crash" not in keep:
            continue
        out.append(line)
    txt = "\n".join(out)
    # repair separators: every observation line but the last ends with ';'
    lines = [l for l in txt.split("\n")]
    body = [i for i, l in enumerate(lines) if l.strip().startswith("(Y")]  # YX, YCrash, YTranslate, YIter
    for j, i in enumerate(body):
        l = lines[i].rstrip()
        l = l[:-1] if l.endswith(";") else l
        closing = l.endswith("]") and j == len(body) - 1
        if j < len(body) - 1:
            lines[i] = l + ";"
        else:
            lines[i] = l if closing else l + "]"
    return "\n".join(lines)


SKEL_GOALS = {
    "C12": "wf_C12 skel_Store_Flush skel_Store_flushTick",
    "C17": "wf_C17 skel_Store_Close skel_Store_run skel_primaryGC_run skel_primaryGC_close skel_MultihashPrimary_Close skel_Index_garbageCollector skel_Index_Close",
    "C05": "wf_C05 skel_Index_Put skel_Index_update skel_Index_remove skel_Index_Get skel_Index_Flush skel_MultihashPrimary_Flush skel_Store_commit skel_Store_Put skel_Store_Remove",
    "C06": "wf_C06 skel_Store_Get skel_Store_Has skel_Store_GetSize skel_Store_Put skel_Store_Remove skel_primaryGC_reapRecords skel_primaryGC_gc",
    "C09": "wf_C09 skel_OpenStore skel_translateIndex skel_finishIndexTranslation",
    "C10": "wf_C10 skel_remapIndex",
    "C03": "wf_C03 skel_Index_gc skel_Index_truncateFreeFiles skel_primaryGC_gc",
    "C13": "wf_C13 skel_FreeList_ToGC skel_processFreeList",
    "C14": "wf_C14 [skel_FileCache_Open; skel_FileCache_Close; skel_FileCache_Remove; skel_FileCache_Clear; skel_FileCache_SetCacheSize; skel_FileCache_Len; skel_FileCache_Cap]",
}

def skeleton_obligation(which):
    """Regenerate the synchronisation skeletons from /repo and discharge the predicate the model of property [which] relies on.
    Returns (ok, text)."""
    C.go_build(["skel"])
    gen = os.path.join(C.BUILD, "gen"); os.makedirs(gen, exist_ok=True)
    with C.Lock("skelgen"):
        p = C.sh([os.path.join(C.BIN, "skel"), "sync", C.REPO, os.path.join(gen, "SyncSkeletonGen.v")], check=False)
        if p.returncode != 0:
            raise C.CheckError("skel sync failed: " + p.stdout[-1500:])
        pc = C.sh(["timeout", "300", "coqc", "-Q", os.path.join(C.COQ, "theories"), "STH", "-Q", gen, "STHGen", "SyncSkeletonGen.v"], cwd=gen, check=False)
        if pc.returncode != 0:
            return False, "generated skeleton does not compile: " + pc.stdout[-800:]
        goal = os.path.join(gen, "SkelGoal_%s.v" % which)
        open(goal, "w").write("From Coq Require Import List String.\nFrom STH Require Import SyncWf.\nFrom STHGen Require Import SyncSkeletonGen.\nImport ListNotations.\n"
                               "Lemma skeleton_ok_%s : %s = true.\nProof. vm_compute. reflexivity. Qed.\n" % (which, SKEL_GOALS[which]))
        pg = C.sh(["timeout", "300", "coqc", "-Q", os.path.join(C.COQ, "theories"), "STH", "-Q", gen, "STHGen", goal], cwd=gen, check=False)
    return pg.returncode == 0, ("skeleton_ok_%s : %s = true" % (which, SKEL_GOALS[which])) + ("" if pg.returncode == 0 else "  -- FAILED: " + pg.stdout[-400:])


def load_known():
    p = os.path.join(C.VERIF, "known_findings.json")
    if not os.path.exists(p):
        return []
    return json.load(open(p)).get("findings", [])


def run_witnesses(names):
    if not names:
        return []
    p = C.sh([os.path.join(C.BIN, "witness"), "run"] + names, check=False, timeout=600,
             env=dict(os.environ, GOLOG_LOG_LEVEL="fatal"))
    res = []
    for line in p.stdout.split("\n"):
        m = re.match(r"(\S+) (PASS|FAIL) (\S+) ?(.*)", line)
        if m:
            res.append((m.group(1), m.group(2) == "PASS", m.group(4)))
    got = {r[0] for r in res}
    for n in names:
        if n not in got:
            res.append((n, False, "witness did not report (crashed?): " + p.stdout[-300:]))
    return res


def eval_oracle(hist_text, recs, aspects=("map",)):
    """Oracles on one history's records. Returns first failure (index, description) or None."""
    imm = " imm=1" in hist_text.split("\n")[0]
    o = oracles.MapOracle(imm, aspects)
    for r in recs:
        if r["i"] < 0:
            if r["res"] == "FAILED":
                return (-1, "harness could not run the history: %s" % r.get("extra"))
            continue
        bad = o.expect(r)
        if bad:
            return (r["i"], bad)
        for kk in ("fsck", "fsck_after_gc"):
            fs_ = (r.get("extra") or {}).get(kk)
            if fs_ and "fsck" in aspects:
                return (r["i"], "C07 on the real files (%s): %s" % ("after Flush/Close/reopen" if kk == "fsck" else "after a GC cycle", fs_))
        rl = (r.get("extra") or {}).get("rl_check")
        if rl and "rl" in aspects:
            return (r["i"], "C08/C07 on the real index bytes: " + rl)
        if "idx" in aspects and r["op"] in ("put", "remove") and r["res"] == "ROk":
            # the index resolves the key to exactly the location most recently associated with it
            ex = r.get("extra") or {}
            if r["op"] == "put" and ex.get("blk_after") == "":
                return (r["i"], "C08: after Put the index does not resolve the key to a location holding it")
            if r["op"] == "remove" and r.get("found") and ex.get("blk_after") != "":
                return (r["i"], "C08: after Remove the index still resolves the key to %s" % ex.get("blk_after"))
        d = (r.get("extra") or {}).get("dir")
        if d and "dir" in aspects:
            bad = oracles.dir_invariants(d, quiescent=(r["op"] == "flush" and r["res"] == "ROk" and (r.get("extra") or {}).get("pools_empty") is True and "crash_keep" not in (r.get("extra") or {})))
            if bad:
                return (r["i"], bad)
    return None


def eval_all(spec, hist_text, recs):
    bad = eval_oracle(hist_text, recs, getattr(spec, "aspects", ("map",)) if spec else ("map",))
    if bad is None and getattr(spec, "extra_oracle", None):
        bad = spec.extra_oracle(hist_text, recs)
    return bad


def shrink(hist_text, still_fails, budget=60):
    """Delta debugging on the operation lines (the cfg line is kept)."""
    if os.environ.get("VERIF_NO_SHRINK"):
        return hist_text          # the seeded-change sweeps only need the verdict
    lines = [l for l in hist_text.strip().split("\n")]
    cfg, ops = lines[0], lines[1:]
    n = 2
    tries = 0
    while len(ops) >= 2 and tries < budget:
        chunk = max(1, len(ops) // n)
        reduced = False
        for i in range(0, len(ops), chunk):
            cand = ops[:i] + ops[i + chunk:]
            tries += 1
            if cand and still_fails(cfg + "\n" + "\n".join(cand) + "\n"):
                ops = cand
                n = max(n - 1, 2)
                reduced = True
                break
            if tries >= budget:
                break
        if not reduced:
            if chunk == 1:
                break
            n = min(len(ops), n * 2)
    return cfg + "\n" + "\n".join(ops) + "\n"


def run_histories(texts, wd, keep, spec=None):
    """Write, run on the implementation, replay on the model. Returns dict name -> (text, recs, oracle_failure, mismatch_index)."""
    paths = []
    for i, t in enumerate(texts):
        p = os.path.join(wd, "h%05d.hist" % i)
        with open(p, "w") as f:
            f.write(t)
        paths.append(p)
    terms, recs = C.run_sthdrive(paths, wd)
    by = collections.defaultdict(list)
    for r in recs:
        by[r["hist"]].append(r)
    proj = [(n, project(t, keep) if t else "") for n, t in terms]
    mism, coq_s = C.coq_replay(proj, wd)
    mm = dict(mism)
    out = {}
    for p, t in zip(paths, texts):
        out[p] = (t, by[p], eval_all(spec, t, by[p]), mm.get(p))
    return out, coq_s


def run_check(prop, tier, seed, replay, t0):
    spec = CHECKS[prop]
    violations = []          # (description, replay_path, has_failing_input)
    notes = []
    cov = {"trusted_base": TRUSTED_BASE}
    # ---------------- 1. proof obligations
    broken_obligations = []
    try:
        checker = C.coq_build()
    except C.CheckError as e:
        checker = "make (FAILED)"
        broken_obligations.append("coq build: " + str(e)[-1500:])
    gate = C.grep_gate()
    if gate:
        broken_obligations.append("forbidden vernacular: " + "; ".join(gate[:10]))
    assum, raw = ({}, "")
    if not broken_obligations:
        assum, raw = C.print_assumptions(spec.prop_file)
        if assum is None:
            broken_obligations.append("coq/properties/%s does not compile: %s" % (spec.prop_file, raw[-1500:]))
            assum = {}
    obligations = max(1, len(assum))
    discharged = 0
    for name, a in assum.items():
        if a.startswith("Closed under the global context"):
            discharged += 1
        else:
            broken_obligations.append("theorem %s depends on: %s" % (name, a[:400]))
    sk_names = getattr(spec, "skeleton", None)
    for skn in ([sk_names] if isinstance(sk_names, str) else (sk_names or [])):
        sk_ok, sk_text = skeleton_obligation(skn)
        obligations += 1
        cov["regenerated_skeleton_obligation" + ("" if skn == ([sk_names] if isinstance(sk_names, str) else sk_names)[0] else "_" + skn)] = sk_text
        if sk_ok:
            discharged += 1
        else:
            broken_obligations.append("regenerated obligation (synchronisation skeleton extracted from /repo by harness/cmd/skel): " + sk_text)
    if tier == "thorough" and prop == "C01" and not broken_obligations:
        # the independent checker re-checks every compiled file the property files depend on and lists the axioms they rely on
        mods = ["STHProps.C%02d" % i for i in range(1, 18)]
        for m_ in mods:
            C.print_assumptions(m_.split(".")[1] + ".v")        # makes sure every property file is compiled (.vo) for coqchk
        pchk = C.sh(["timeout", "14400", "coqchk", "-silent", "-o", "-Q", "theories", "STH", "-Q", "properties", "STHProps"] + mods, cwd=C.COQ, check=False)
        summary = pchk.stdout[pchk.stdout.find("CONTEXT SUMMARY"):][:3000] if "CONTEXT SUMMARY" in pchk.stdout else pchk.stdout[-1500:]
        cov["coqchk"] = {"exit": pchk.returncode, "summary": summary.strip().split("\n")}
        obligations += 1
        if pchk.returncode == 0 and re.search(r"Axioms:\s*<none>", pchk.stdout):
            discharged += 1
        else:
            broken_obligations.append("coqchk does not accept the compiled development without axioms: " + summary[-600:])
    cov.update(obligations=obligations, discharged=discharged,
               checker_cmd=checker + " && coqc -Q theories STH -Q properties STHProps properties/" + spec.prop_file,
               print_assumptions=assum, grep_gate="clean" if not gate else gate)
    # ---------------- 2. harness from the current tree
    C.go_build(spec.tools)
    cov["repo"] = C.repo_rev()
    wd = C.workdir(prop)
    # ---------------- 3. regression witnesses (minimised failures found earlier run first)
    known = load_known()
    wres = run_witnesses(spec.witnesses)
    cov["witnesses"] = [{"name": n, "pass": ok, "detail": d} for n, ok, d in wres]
    for n, ok, d in wres:
        if ok:
            continue
        kf = [k for k in known if k.get("status") == "known" and k.get("witness") == n and k.get("property") == prop]
        if kf:
            print("KNOWN-FINDING: property=%s %s" % (prop, kf[0]["what"]))
            continue
        rp = C.save_replay(prop, n + ".txt", "witness scenario %s (harness/cmd/witness)\nreplay: cd /verif && ./check %s --replay witness:%s\nobserved: %s\n" % (n, prop, n, d))
        violations.append(("witness %s: %s" % (n, d), rp, True))
    # ---------------- 4. histories
    rng = random.Random(seed * 1000003 + int(hashlib.sha1(prop.encode()).hexdigest()[:6], 16))
    n = spec.quick_n if tier == "quick" else spec.thorough_n
    if spec.weights is None:
        n = 0                    # no store histories for this property: its own driver runs in spec.extra
    texts = []
    corpus = os.path.join(C.VERIF, "corpus", prop)
    if os.path.isdir(corpus):
        for fn in sorted(os.listdir(corpus)):
            if fn.endswith(".hist"):
                texts.append(open(os.path.join(corpus, fn)).read())
    ncorpus = len(texts)
    if replay and not replay.startswith("witness:"):
        texts = [open(replay).read()] if replay.endswith(".hist") else []     # other replay kinds belong to the property's own driver (spec.extra)
        ncorpus, n = 0, 0
    for _ in range(n):
        w, kw = spec.weights, spec.gen_kw
        for prob, alt in (getattr(spec, "variants", None) or []):
            if rng.random() < prob:
                w = alt.get("weights", w)
                kw = dict(kw, **alt.get("gen_kw", {}))
                break
        t = gen.history(rng, w, **kw)
        if getattr(spec, "igc_merge_p", 0) and rng.random() < spec.igc_merge_p:
            t = gen.igc_merge_history(rng)
        if getattr(spec, "tail", None) == "drain":
            t = gen.add_drain(rng, t)
        texts.append(t)
    results, coq_s = (run_histories(texts, wd, spec.keep, spec) if texts else ({}, 0.0))
    opcount = collections.Counter()
    vlens = collections.Counter()
    nontriv = set()
    errs = collections.Counter()
    for p, (t, recs, ofail, mm) in results.items():
        for r in recs:
            if r["i"] >= 0:
                opcount[r["op"]] += 1
                if r["res"] not in ("ROk",):
                    errs[r["res"]] += 1
                if r["op"] == "put":
                    vlens[min(len(r.get("val") or "") // 2, 12)] += 1
        if spec.nontrivial and spec.nontrivial(t, recs):
            nontriv.add(hashlib.sha1(t.encode()).hexdigest())
    def fails(text):
        w2 = os.path.join(wd, "shrink")
        shutil.rmtree(w2, ignore_errors=True)
        os.makedirs(w2)
        r, _ = run_histories([text], w2, spec.keep, spec)
        (_, (_, _, of, m2)), = r.items()
        return of is not None or m2 is not None
    def fails_oracle(text):
        w2 = os.path.join(wd, "shrink")
        shutil.rmtree(w2, ignore_errors=True)
        os.makedirs(w2)
        r, _ = run_histories([text], w2, (), spec)
        (_, (_, _, of, m2)), = r.items()
        return of is not None
    bad_oracle = [(p, v) for p, v in results.items() if v[2] is not None]
    bad_corr = [(p, v) for p, v in results.items() if v[2] is None and v[3] is not None]
    bad_oracle.sort(key=lambda x: len(x[1][0]))
    for bi, (p, (t, recs, ofail, mm)) in enumerate(bad_oracle[:3]):
        small = shrink(t, fails_oracle, budget=50) if (spec.oracle and bi == 0) else t      # only the shortest failing history is minimised
        rp = C.save_replay(prop, "hist-%s.hist" % hashlib.sha1(small.encode()).hexdigest()[:10],
                           "# property %s fails on the implementation: op %d: %s\n# replay: cd /verif && ./check %s --replay <this file>\n%s" % (prop, ofail[0], ofail[1], prop, small))
        violations.append(("history op %d: %s" % ofail, rp, True))
    if bad_corr and not bad_oracle:
        # the model no longer predicts the implementation: search for an input on which the property itself fails
        found = None
        srch = random.Random(seed + 77)
        extra = [gen.history(srch, spec.weights, **spec.gen_kw) for _ in range(300 if tier == "quick" else 3000)]
        w3 = os.path.join(wd, "search"); os.makedirs(w3, exist_ok=True)
        r3, _ = run_histories(extra, w3, (), spec)
        for p3, v3 in r3.items():
            if v3[2] is not None:
                found = v3
                break
        p, (t, recs, ofail, mm) = bad_corr[0]
        small = shrink(t, fails)
        if found:
            t3, _, of3, _ = found
            small3 = shrink(t3, fails_oracle)
            rp = C.save_replay(prop, "hist-%s.hist" % hashlib.sha1(small3.encode()).hexdigest()[:10],
                               "# property %s fails on the implementation: op %d: %s\n%s" % (prop, of3[0], of3[1], small3))
            violations.append(("correspondence broke and the search found a failing history: op %d: %s" % of3, rp, True))
        else:
            rp = C.save_replay(prop, "corr-%s.hist" % hashlib.sha1(small.encode()).hexdigest()[:10],
                               "# correspondence obligation broken: model (coq/theories/Store.v, replay5) and implementation disagree at observation %s of this history\n"
                               "# (%d of %d histories disagree); the theorems of coq/properties/%s no longer speak about this code.\n"
                               "# no history on which the property's own oracle fails was found among %d further histories\n%s"
                               % (mm, len(bad_corr), len(results), spec.prop_file, len(extra), small))
            violations.append(("correspondence: model and implementation disagree on %d of %d histories" % (len(bad_corr), len(results)), rp, False))
    extra_cov = {}
    if getattr(spec, "extra", None):
        ev, extra_cov = spec.extra(dict(prop=prop, tier=tier, seed=seed, wd=wd, rng=rng, spec=spec, replay=replay))
        violations += ev
    if broken_obligations and not violations:
        rp = C.save_replay(prop, "obligation.txt", "broken proof obligation(s) for %s:\n%s\n" % (prop, "\n".join(broken_obligations)))
        violations.append(("proof obligation broken: " + broken_obligations[0][:200], rp, False))
    # ---------------- evidence
    sample_hist = texts[ncorpus] if len(texts) > ncorpus else (texts[0] if texts else "")
    cov.update(evaluations=len(results) + len(wres), distinct_nontrivial=len(nontriv), rule=spec.rule,
               samples=[{"history": sample_hist.strip().split("\n")[:25]}] + [{"witness": n} for n, _, _ in wres[:3]],
               traces_validated_against_impl=sum(1 for v in results.values() if v[3] is None and v[2] is None),
               correspondence_mismatches=len(bad_corr), oracle_failures=len(bad_oracle), corpus_histories=ncorpus,
               op_histogram=dict(opcount), put_value_length_histogram={str(k): v for k, v in sorted(vlens.items())},
               non_ok_results=dict(errs), observations_compared=list(spec.keep), coq_replay_s=round(coq_s, 1))
    if extra_cov:
        if "regenerated_obligation" in extra_cov:
            cov["obligations"] += 1
            cov["discharged"] += 1 if extra_cov.get("lock_table_consistent", extra_cov.get("skeleton_ok")) else 0
        cov["evaluations"] += extra_cov.pop("evaluations", 0)
        cov["distinct_nontrivial"] += extra_cov.pop("distinct_nontrivial", 0)
        cov["traces_validated_against_impl"] += extra_cov.pop("traces_validated_against_impl", 0)
        cov["correspondence_mismatches"] += extra_cov.pop("correspondence_mismatches", 0)
        cov["oracle_failures"] += extra_cov.pop("oracle_failures", 0)
        cov["samples"] += extra_cov.pop("samples", [])
        cov.update(extra_cov)
    C.write_evidence(prop, tier, seed, cov, time.time() - t0, len(violations),
                     ["the correspondence is differential testing: its strength is bounded by the generators (distribution above)",
                      "the model covers the multihash primary with one-byte varints; see DESIGN.md section 3.4 for what is modelled"])
    for what, rp, has_input in violations:
        print("VIOLATION property=%s replay=%s %s%s" % (prop, rp, what.replace("\n", " ")[:300], "" if has_input else " no-failing-input-found"))
    if not violations:
        print("OK property=%s tier=%s evaluations=%d nontrivial=%d witnesses=%d obligations=%d/%d wall=%.1fs" %
              (prop, tier, cov["evaluations"], cov["distinct_nontrivial"], len(wres), cov["discharged"], cov["obligations"], time.time() - t0))
    return 1 if violations else 0
