"""History generators. Every random choice comes from one random.Random seeded from VERIF_SEED."""
import random

def mk_keys(rng, nk, lens=(4, 5, 6, 7), first=(5, 6), mid=(1, 2), code=0x12):
    """Multihash keys whose digests share bucket bits and long prefixes; pairwise prefix-free (last byte unique, >= 10)."""
    ks = []
    for i in range(nk):
        dl = rng.choice(lens)
        d = [rng.choice(mid) for _ in range(dl)]
        d[0] = rng.choice(first)
        d[-1] = 10 + i
        ks.append(bytes([code, dl] + d))
    return ks

def rand_val(rng, maxlen=11):
    r = rng.random()
    if r < 0.06:
        return None          # nil
    if r < 0.14:
        return b""
    n = rng.randint(1, maxlen)
    return bytes(rng.choice(b"abc") for _ in range(n))

def hexv(v):
    if v is None:
        return "nil"
    if len(v) == 0:
        return "-"
    return v.hex()

DEFAULT_W = dict(put=34, get=12, has=3, size=4, remove=12, flush=12, reopen=0, rebits=0, igc=0, pgc=0, iter=0, crash=0, missize=0, pgcb=0, igcb=0, pgcl=0, atflush=0)

def history(rng, weights=None, nops=(15, 60), bits_choices=(8, 9, 12, 16), imax_choices=(1, 40, 100, 300, 1 << 30),
            pmax_choices=(1, 60, 100, 300, 1 << 30), imm_p=0.25, nkeys=(4, 11), maxlen=11, keys=None, sweep_p=0.0, first=None, lens=(4, 5, 6, 7), equal_len=False, one_bucket=False):
    w = dict(DEFAULT_W)
    if weights:
        w.update(weights)
    kinds = [k for k in w if w[k] > 0]
    ws = [w[k] for k in kinds]
    bits = rng.choice(bits_choices)
    cfg = dict(bits=bits, imax=rng.choice(imax_choices), pmax=rng.choice(pmax_choices), imm=1 if rng.random() < imm_p else 0)
    if keys:
        ks = keys
    else:
        prof = rng.random()
        if equal_len:
            lens = (rng.choice(lens),)
        if one_bucket:
            # same bucket for every bit size up to 24: the first three digest bytes are fixed
            f0 = rng.choice((5, 0xff, 0))
            ks = [k[:2] + bytes([f0, f0, f0]) + k[5:] for k in mk_keys(rng, rng.randint(*nkeys), lens=lens, first=(f0,))]
        elif first or equal_len:
            ks = mk_keys(rng, rng.randint(*nkeys), lens=lens, first=first or (5, 6))
        elif prof < 0.12:      # highest buckets: every bucket byte 0xff
            ks = mk_keys(rng, rng.randint(*nkeys), first=(0xff,), mid=(0xff, 0xfe))
        elif prof < 0.2:     # lowest buckets
            ks = mk_keys(rng, rng.randint(*nkeys), first=(0,), mid=(0, 1))
        elif prof < 0.3:     # keys that differ only in the HIGH bits of a byte: same bucket under bit sizes that are not multiples of 8
            ks = mk_keys(rng, rng.randint(*nkeys), first=(5, 0x1b), mid=(0x1b, 0x2b, 0x3b))
            # twins: the same digest except for the high nibble of byte 1 (or byte 2): distinct keys, neither a prefix of the other,
            # that fall into one bucket and agree on every whole byte behind the bucket bits when the bit size is 9..15 (17..23)
            for k in list(ks[:3]):
                j = rng.choice((3, 3, 4))
                t = bytearray(k); t[j] ^= 0x30
                if bytes(t) not in ks:
                    ks.append(bytes(t))
        else:
            ks = mk_keys(rng, rng.randint(*nkeys))
    lines = ["cfg primary=mh bits=%(bits)d imax=%(imax)d pmax=%(pmax)d imm=%(imm)d" % cfg]
    n = rng.randint(*nops)
    for _ in range(n):
        kind = rng.choices(kinds, ws)[0]
        k = rng.choice(ks)
        if kind == "put":
            lines.append("put %s %s" % (k.hex(), hexv(rand_val(rng, maxlen))))
        elif kind in ("get", "has", "size", "remove"):
            lines.append("%s %s" % (kind, k.hex()))
        elif kind == "flush":
            lines.append("flush")
        elif kind == "crash":
            lines.append("crash %d" % rng.randint(0, 1000))
            lines.append("flush")
        elif kind == "reopen":
            lines.append("reopen %d" % rng.choice((0, 0, 1, 1, 2)))
        elif kind == "missize":
            lines.append("missize")
        elif kind == "rebits":
            nb = rng.choice([b for b in bits_choices if b != bits] or [bits])
            bits = nb
            lines.append("rebits %d" % nb)
        elif kind == "igc":
            lines.append("igc %d" % rng.randint(0, 1))
        elif kind == "pgc":
            lines.append("pgc %d" % rng.randint(10, 94))
        elif kind == "iter":
            lines.append("iter")
        elif kind == "pgcb":
            lines.append("pgcb %d %d" % (rng.randint(10, 94), rng.choice((0, 0, 1, 1, 2, 3, 5, 8))))
        elif kind == "pgcl":
            lines.append("pgcl %d %d" % (rng.randint(10, 94), rng.choice((0, 0, 1, 1, 2, 3))))
        elif kind == "igcb":
            lines.append("igcb %d %d" % (rng.randint(0, 1), rng.choice((0, 1, 1, 2, 3, 5, 8))))
        elif kind == "atflush":
            # a writer slips into the next Flush between its index flush and its freelist flush
            if rng.random() < 0.75:
                lines.append("at store.commit.afterIndexFlush put %s %s" % (k.hex(), hexv(rand_val(rng, maxlen))))
            else:
                lines.append("at store.commit.afterIndexFlush remove %s" % k.hex())
            lines.append("flush")
        if kind in ("reopen", "rebits", "igc", "pgc", "missize") and rng.random() < sweep_p:
            for k2 in ks:       # read everything back right after the operation
                lines.append("%s %s" % (rng.choice(("get", "get", "has", "size")), k2.hex()))
    return "\n".join(lines) + "\n"


def add_drain(rng, text):
    """C11: remove every key, flush, then GC cycles; the last two cycles must find nothing to do."""
    lines = text.strip().split("\n")
    keys = []
    for l in lines:
        f = l.split()
        if f and f[0] in ("put", "get", "has", "size", "remove") and f[1] not in keys:
            keys.append(f[1])
    # make sure the store is writable for removals even in immutable mode (Remove is allowed there too)
    for k in keys:
        lines.append("remove " + k)
    lines.append("flush")
    lu = rng.randint(10, 94)
    if rng.random() < 0.25:
        return budget_drain_history(rng)
    lines += ["pgc %d" % lu, "igc 1", "pgc %d" % lu, "igc 0", "pgc %d" % lu, "igc 1", "#fixedpoint", "pgc %d" % lu, "igc 1", "igc 0"]
    return "\n".join(lines) + "\n"


def budget_drain_history(rng):
    """C11 with time-limited index cycles only (reap-only, resuming at their cursor): they too must release every unreferenced
    file. Ten keys, each alone in its bucket, are written first and never touched again, so the FIRST index file stays
    referenced (it cannot simply be unlinked) and is expensive to walk: a cycle whose time limit lets it walk one file has
    to RESUME behind it to make progress. The budget (successful context polls) is a little more than one full file."""
    keeps = ["1206%02x0707070733" % (0x30 + i) for i in range(10)]
    ks = [k.hex() for k in mk_keys(rng, 6, first=(5, 6, 7))]
    lines = ["cfg primary=mh bits=8 imax=300 pmax=1073741824 imm=0"] + ["put %s 6b656570" % k for k in keeps] + ["flush"]
    for _ in range(rng.randint(45, 70)):
        lines += ["put %s %s" % (rng.choice(ks), hexv(rand_val(rng) or b"x")), "flush"]
    lines += ["remove %s" % k for k in ks] + ["flush", "pgc 50", "pgc 50"]
    # walking the first file costs 11 polls (10 referenced records + end of file): the budget leaves exactly one more poll, so
    # a cycle that does not resume behind the first file can never get past the first span of the second
    lines += ["igcb 0 12"] * 120 + ["#budgeted-drain"]
    return "\n".join(lines) + "\n"


def igc_merge_history(rng):
    """Index GC over a NON-CURRENT index file that holds the record lists of several buckets, superseded a few at a time between
    cycles, so that a cycle finds records it freed EARLIER next to records it frees now (merging into an existing free span, in
    both directions), with a live list behind the span; then a reopen that has to rescan the log (the skip over a merged span must
    land exactly on the next record), and everything is read back."""
    nb = rng.randint(4, 7)
    buckets = rng.sample(range(1, 40), nb)
    key = lambda b, i: "1206%02x0707%02x%02x%02x" % (b, i, i, 10 + i)
    imax = rng.choice((100, 130, 160, 200))
    lines = ["cfg primary=mh bits=8 imax=%d pmax=1073741824 imm=0" % imax]
    live = {}
    for b in buckets:                                   # one record list per flush, in this order, into the first index file
        lines += ["put %s %s" % (key(b, 0), "61" * rng.randint(1, 4)), "flush"]
        live[b] = 1
    filler = [b for b in range(41, 60)]
    for b in rng.sample(filler, max(1, imax // 22 + 2 - nb)):     # roll the log over (a one-key list takes 22 bytes): the first file becomes non-current
        lines += ["put %s 62" % key(b, 0), "flush"]
    order = buckets[:]
    rng.shuffle(order)
    keep = set(rng.sample(buckets, rng.randint(1, 2)))  # these lists stay live inside the first file
    for b in order:
        if b in keep:
            continue
        lines += ["put %s %s" % (key(b, live[b]), "63" * rng.randint(1, 3)), "flush"]
        live[b] += 1
        if rng.random() < 0.7:
            lines.append("igc %d" % rng.randint(0, 1))
    lines.append("igc %d" % rng.randint(0, 1))
    lines.append("reopen %d" % rng.choice((1, 1, 2, 0)))
    for b in buckets:
        for i in range(live[b]):
            lines.append("get " + key(b, i))
    if rng.random() < 0.5:
        lines += ["igc 1", "reopen 1"] + ["get " + key(b, 0) for b in buckets]
    return "\n".join(lines) + "\n"
