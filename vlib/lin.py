"""Linearizability oracle for small concurrent scenarios run by concdrive (brute force over permutations)."""
import itertools

def dg(keyhex):
    return keyhex[4:]          # multihash: one code byte, one length byte, digest

def apply(m, t, imm):
    """Sequential semantics of one call on map m (dict digest->value hex). Returns expected (res, found, out)."""
    op = t["op"]
    k = dg(t["key"]) if t.get("key") else None
    if op == "put":
        if k in m and imm:
            return ("RExists", False, "")
        m[k] = t.get("val", "")
        return ("ROk", False, "")
    if op == "get":
        return ("ROk", k in m, m.get(k, ""))
    if op == "has":
        return ("ROk", k in m, "")
    if op == "size":
        return ("ROk", k in m, str(len(m[k]) // 2) if k in m else "0")
    if op == "remove":
        had = k in m
        m.pop(k, None)
        return ("ROk", had, "")
    return ("ROk", False, "")      # flush, pgc, igc, storagesize: no effect on the map

def matches(t, exp):
    res, found, out = exp
    if t["res"] != res:
        return False
    if t["op"] in ("get", "has", "size", "remove") and t["found"] != found:
        return False
    if t["op"] == "get" and found and t["out"] != out:
        return False
    if t["op"] == "size" and found and t["out"] != out:
        return False
    return True

def check(setup_ops, threads, final, imm=False):
    """Returns None if some linearization explains every result and the final contents, else a description."""
    m0 = {}
    for o in setup_ops:
        apply(m0, o, imm)
    for t in threads:
        if t["res"].startswith(("RErr", "PANIC")):
            return "call %s (%s %s) failed: %s" % (t["name"], t["op"], t.get("key", ""), t["res"])
    n = len(threads)
    best = None
    for perm in itertools.permutations(range(n)):
        pos = {x: i for i, x in enumerate(perm)}
        ok = True
        for a in range(n):
            for b in range(n):
                if threads[a]["end"] < threads[b]["start"] and pos[a] > pos[b]:
                    ok = False
                    break
            if not ok:
                break
        if not ok:
            continue
        m = dict(m0)
        good = True
        for x in perm:
            if not matches(threads[x], apply(m, threads[x], imm)):
                good = False
                break
        if not good:
            continue
        # final contents
        fin_ok = True
        for kh, v in final.items():
            want = "val:" + m[dg(kh)] if dg(kh) in m else "absent"
            if v != want:
                fin_ok = False
                best = "results are linearizable but the final contents are not those of that linearization: Get(%s) = %s, expected %s" % (kh, v, want)
                break
        if fin_ok:
            return None
    return best or "no linearization of the calls explains the results: " + "; ".join(
        "%s:%s %s -> %s%s" % (t["name"], t["op"], t.get("key", "")[-6:], t["res"], (" found=%s out=%s" % (t["found"], t["out"])) if t["op"] in ("get", "has", "size", "remove") else "") for t in threads)
