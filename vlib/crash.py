"""Process-crash enumeration with the real kernel: the history runs in a child under strace, which delivers SIGKILL on
entry to the K-th file-system call; the directory left behind is recovered by the real code (crashdrive recover).
Torn writes: when the killed call is a write/pwrite64 into the store directory, variants with a proper prefix of its
data applied are recovered too."""
import os, random, re, shutil, subprocess
from concurrent.futures import ThreadPoolExecutor
from . import common as C

SET = "write,pwrite64,ftruncate,rename,renameat,renameat2,unlink,unlinkat,openat,mkdir,mkdirat,rmdir"
ENV = dict(os.environ, GOLOG_LOG_LEVEL="fatal")
CD = os.path.join(C.BIN, "crashdrive")

LINE = re.compile(r"^(\d+)\s+(\w+)\((.*)$")

def unescape(s):
    out = bytearray()
    i = 0
    while i < len(s):
        c = s[i]
        if c == "\\":
            n = s[i + 1]
            if n == "x":
                out.append(int(s[i + 2:i + 4], 16)); i += 4; continue
            out.append({"n": 10, "t": 9, "r": 13, "\\": 92, '"': 34, "0": 0, "v": 11, "f": 12}.get(n, ord(n))); i += 2; continue
        out.append(ord(c)); i += 1
    return bytes(out)

def parse_log(path, storedir):
    """Calls of the main thread, in order: dicts {call, mutating, path, data, offset}."""
    calls = []
    sd = os.path.realpath(storedir) + "/"
    # the thread the history runs on (crashdrive pins its goroutine with LockOSThread): the one with the most calls into the store
    # directory - it is usually, but not always, the first thread of the log
    per_tid = {}
    with open(path, errors="replace") as f:
        for line in f:
            m = LINE.match(line)
            if m and sd in m.group(3):
                per_tid[m.group(1)] = per_tid.get(m.group(1), 0) + 1
    main = max(per_tid, key=per_tid.get) if per_tid else None
    with open(path, errors="replace") as f:
        for line in f:
            m = LINE.match(line)
            if not m:
                continue
            tid, call, rest = m.groups()
            if main is None:
                main = tid
            if tid != main:
                continue
            d = {"call": call, "mutating": False, "path": None, "data": None, "offset": None, "raw": line.strip()[:200]}
            inside = sd in rest
            if call in ("write", "pwrite64"):
                pm = re.match(r'\d+<([^>]*)>, "((?:[^"\\]|\\.)*)"(?:\.\.\.)?, (\d+)(?:, (\d+))?', rest)
                if pm and pm.group(1).startswith(sd):
                    d.update(mutating=True, path=pm.group(1), data=unescape(pm.group(2)), offset=int(pm.group(4)) if pm.group(4) else None)
            elif call == "openat":
                d["mutating"] = inside and ("O_CREAT" in rest or "O_TRUNC" in rest)
            else:
                d["mutating"] = inside
            calls.append(d)
    return calls

def strace(args, log, inject=None):
    cmd = ["strace", "-f", "-y", "-x", "-s", "70000", "-o", log, "-e", "trace=" + SET]
    if inject:
        # strace counts invocations per system call name (and per thread): (name, j) = the j-th call of that name
        cmd += ["-e", "inject=%s:signal=SIGKILL:when=%d" % inject]
    return subprocess.run(cmd + args, env=ENV, stdout=subprocess.PIPE, stderr=subprocess.STDOUT, text=True, timeout=600)

TRIMS = []     # (bytes of the last primary file as the crash left it, length after Open) - replayed on Trimb.trim_len

def recover(hist, d, ack):
    p = subprocess.run([CD, "recover", hist, d, ack], env=ENV, stdout=subprocess.PIPE, stderr=subprocess.STDOUT, text=True, timeout=600)
    for l in p.stdout.split("\n"):
        if l.startswith("TRIM "):
            f = l.split()
            if len(f) == 3:
                TRIMS.append((f[1], int(f[2])))
            elif len(f) == 2:
                TRIMS.append(("", int(f[1])))
    lines = [l for l in p.stdout.strip().split("\n") if l.startswith(("OK", "BAD"))]
    if p.returncode == 0 and lines and lines[-1].startswith("OK"):
        return None
    return (lines[-1] if lines else "recover crashed: " + p.stdout[-300:])

def enumerate_history(hist, wd, rng, max_points=None, torn=True, keep_writes=0):
    """Returns (n_points, n_torn, failures[list of dict])."""
    base = os.path.join(wd, os.path.basename(hist) + ".d")
    shutil.rmtree(base, ignore_errors=True)
    os.makedirs(base)
    d0 = os.path.join(base, "dry"); os.makedirs(d0)
    log0 = os.path.join(base, "dry.log")
    p = strace([CD, "child", hist, d0, os.path.join(base, "dry.ack")], log0)
    if p.returncode != 0:
        raise C.CheckError("crashdrive child failed without injection: " + p.stdout[-500:])
    calls = parse_log(log0, d0)
    # kill on entering call K (1-based) leaves the state after calls 1..K-1: interesting when call K-1 mutated the
    # directory, or when call K itself is a write (torn variants)
    occ = {}
    nth = []
    for c in calls:
        occ[c["call"]] = occ.get(c["call"], 0) + 1
        nth.append((c["call"], occ[c["call"]]))
    ks = [k for k in range(2, len(calls) + 1) if calls[k - 2]["mutating"] or (calls[k - 1]["mutating"] and calls[k - 1]["data"] is not None)]
    if max_points and len(ks) > max_points:
        # crash points behind the rare calls (GC marks, truncations, unlinks, renames, directory operations) are always kept
        rare = [k for k in ks if calls[k - 2]["call"] not in ("write", "openat")]
        if keep_writes:
            # ... and so are the first writes into index files and into primary files (their torn variants exercise the recovery scan / trim)
            for pat in (r"/i\.\d+$", r"/d\.\d+$"):
                ws = [k for k in ks if calls[k - 1]["call"] == "write" and calls[k - 1]["data"] and re.search(pat, calls[k - 1]["path"] or "")]
                rare += ws[:keep_writes] + ws[-keep_writes:]
        rest = [k for k in ks if k not in rare]
        ks = sorted(set(rare + rng.sample(rest, max(0, min(len(rest), max_points - len(rare))))))
    shutil.rmtree(d0, ignore_errors=True)
    failures = []
    ntorn = [0]
    def one(k):
        d = os.path.join(base, "k%d" % k); os.makedirs(d)
        ack = os.path.join(base, "k%d.ack" % k); log = os.path.join(base, "k%d.log" % k)
        strace([CD, "child", hist, d, ack], log, inject=nth[k - 1])
        cl = parse_log(log, d)
        last = cl[-1] if cl else None
        variants = []
        if torn and last and last["data"] and len(last["data"]) > 1 and last["path"]:
            n = len(last["data"])
            js = sorted(set(j for j in (1, 2, 3, 4, 5, 8, n // 2, n - 1) if 0 < j < n))
            for j in js:
                dv = os.path.join(base, "k%dt%d" % (k, j))
                shutil.copytree(d, dv)
                rel = os.path.relpath(last["path"], os.path.realpath(d))
                tp = os.path.join(dv, rel)
                if last["offset"] is None:
                    with open(tp, "ab") as f:
                        f.write(last["data"][:j])
                else:
                    with open(tp, "r+b") as f:
                        f.seek(last["offset"]); f.write(last["data"][:j])
                variants.append((dv, "torn %s of %s after %d of %d bytes" % (last["call"], rel, j, n)))
        res = []
        for dv, what in [(d, "killed entering call %d: %s" % (k, last["raw"][:120] if last else "?"))] + variants:
            ackc = ack + os.path.basename(dv)
            shutil.copy(ack, ackc) if os.path.exists(ack) else open(ackc, "w").close()
            keep = dv + ".keep"
            shutil.copytree(dv, keep)
            bad = recover(hist, dv, ackc)
            if bad:
                res.append({"k": k, "what": what, "bad": bad, "image": keep, "ack": ackc})
            else:
                shutil.rmtree(keep, ignore_errors=True)
            shutil.rmtree(dv, ignore_errors=True)
        ntorn[0] += len(variants)
        return res
    with ThreadPoolExecutor(C.NCPU) as ex:
        for r in ex.map(one, ks):
            failures += r
    return len(ks), ntorn[0], failures, len(calls)


def enumerate_generic(template, child_args, verify_args, wd, rng, max_points=None, torn=True):
    """The same enumeration for any child that converts / changes a directory: [template] is copied for every kill point, [child_args(dir)]
    is the command that is killed, [verify_args(dir)] the command that opens what is left and prints OK or BAD ...
    Returns (n_points, n_torn, failures, n_calls)."""
    shutil.rmtree(wd, ignore_errors=True)
    os.makedirs(wd)
    d0 = os.path.join(wd, "dry"); shutil.copytree(template, d0)
    log0 = os.path.join(wd, "dry.log")
    p = strace(child_args(d0), log0)
    if p.returncode != 0:
        raise C.CheckError("child failed without injection: " + p.stdout[-500:])
    calls = parse_log(log0, d0)
    occ, nth = {}, []
    for c in calls:
        occ[c["call"]] = occ.get(c["call"], 0) + 1
        nth.append((c["call"], occ[c["call"]]))
    ks = [k for k in range(2, len(calls) + 1) if calls[k - 2]["mutating"] or (calls[k - 1]["mutating"] and calls[k - 1]["data"] is not None)]
    if max_points and len(ks) > max_points:
        rare = [k for k in ks if calls[k - 2]["call"] not in ("write", "openat")]
        rest = [k for k in ks if k not in rare]
        ks = sorted(set(rare[:max_points] + rng.sample(rest, max(0, min(len(rest), max_points - len(rare))))))
    shutil.rmtree(d0, ignore_errors=True)
    failures, ntorn = [], [0]
    def check(dv, what):
        keep = dv + ".keep"
        shutil.copytree(dv, keep)
        p = subprocess.run(verify_args(dv), env=ENV, stdout=subprocess.PIPE, stderr=subprocess.STDOUT, text=True, timeout=600)
        lines = [l for l in p.stdout.strip().split("\n") if l.startswith(("OK", "BAD"))]
        shutil.rmtree(dv, ignore_errors=True)
        if p.returncode == 0 and lines and lines[-1].startswith("OK"):
            shutil.rmtree(keep, ignore_errors=True)
            return None
        return {"what": what, "bad": (lines[-1] if lines else "verify crashed: " + p.stdout[-300:]), "image": keep}
    def one(k):
        d = os.path.join(wd, "k%d" % k); shutil.copytree(template, d)
        log = os.path.join(wd, "k%d.log" % k)
        strace(child_args(d), log, inject=nth[k - 1])
        cl = parse_log(log, d)
        last = cl[-1] if cl else None
        variants = []
        if torn and last and last["data"] and len(last["data"]) > 1 and last["path"]:
            n = len(last["data"])
            for j in sorted(set(j for j in (1, 3, 4, 5, n // 2, n - 1) if 0 < j < n)):
                dv = os.path.join(wd, "k%dt%d" % (k, j))
                shutil.copytree(d, dv)
                rel = os.path.relpath(last["path"], os.path.realpath(d))
                tp = os.path.join(dv, rel)
                if last["offset"] is None:
                    with open(tp, "ab") as f:
                        f.write(last["data"][:j])
                else:
                    with open(tp, "r+b") as f:
                        f.seek(last["offset"]); f.write(last["data"][:j])
                variants.append((dv, "torn %s of %s after %d of %d bytes" % (last["call"], rel, j, n)))
        ntorn[0] += len(variants)
        res = []
        for dv, what in [(d, "killed entering call %d: %s" % (k, last["raw"][:140] if last else "?"))] + variants:
            r = check(dv, what)
            if r:
                r["k"] = k
                res.append(r)
        return res
    with ThreadPoolExecutor(C.NCPU) as ex:
        for r in ex.map(one, ks):
            failures += r
    return len(ks), ntorn[0], failures, len(calls)
