"""Property oracles evaluated on the implementation's own trace (independent of the Coq model)."""

def digest(keyhex):
    b = bytes.fromhex(keyhex)
    # multihash: code varint, length varint (both one byte in generated keys), digest
    return b[2:]

class MapOracle:
    """C01: every call answers like an in-memory map (keys identified by their digest)."""
    def __init__(self, imm):
        self.m = {}
        self.imm = imm
        self.durable = {}          # map at the last completed flush / close
        self.since = {}            # key -> set of values (None = absent) held since the last completed flush
    def _note(self, k):
        self.since.setdefault(k, set()).add(self.m.get(k))
    def expect(self, rec):
        """Returns None if rec agrees with the map, else a description. Updates the map."""
        op = rec["op"]
        if op in ("put", "get", "has", "size", "remove"):
            k = digest(rec["key"])
        if op == "put":
            v = bytes.fromhex(rec["val"]) if rec.get("val") else b""
            if k in self.m and self.imm:
                return None if rec["res"] == "RExists" else "Put of an existing key in immutable mode answered %s" % rec["res"]
            if rec["res"] != "ROk":
                return "Put answered %s" % rec["res"]
            self._note(k)
            self.m[k] = v
            self._note(k)
            return None
        if op == "get":
            if rec["res"] != "ROk":
                return "Get failed"
            if rec["found"] != (k in self.m):
                return "Get found=%s, map says %s" % (rec["found"], k in self.m)
            if rec["found"] and bytes.fromhex(rec["out"]) != self.m[k]:
                return "Get returned %s, map holds %s" % (rec["out"], self.m[k].hex())
            return None
        if op == "has":
            if rec["res"] != "ROk":
                return "Has failed"
            return None if rec["found"] == (k in self.m) else "Has=%s, map says %s" % (rec["found"], k in self.m)
        if op == "size":
            if rec["res"] != "ROk":
                return "GetSize failed"
            if rec["found"] != (k in self.m):
                return "GetSize found=%s, map says %s" % (rec["found"], k in self.m)
            if rec["found"] and rec["size"] != len(self.m[k]):
                return "GetSize=%d, map holds %d bytes" % (rec["size"], len(self.m[k]))
            return None
        if op == "remove":
            if rec["res"] != "ROk":
                return "Remove failed"
            if rec["found"] != (k in self.m):
                return "Remove reported %s, map says %s" % (rec["found"], k in self.m)
            self._note(k)
            self.m.pop(k, None)
            self._note(k)
            return None
        if op == "iter":
            if rec["res"] != "ROk":
                return "NewIterator failed"
            got = sorted((digest(k), bytes.fromhex(v)) for k, v in (rec.get("extra") or []))
            want = sorted(self.m.items())
            return None if got == want else "iteration yielded %d bindings, map holds %d (or contents differ)" % (len(got), len(want))
        if op == "flush":
            if rec["res"] != "ROk":
                return "Flush failed"
            ex = rec.get("extra")
            bad = None
            if ex and "gets" in ex:
                bad = self.crash_ok(ex["gets"], "crash inside this flush after %d of %d index records" % (ex["crash_keep"], ex["crash_of"]))
            self.durable = dict(self.m); self.since = {}
            return bad
        if op in ("reopen", "rebits", "close"):
            if rec["res"] != "ROk":
                return "%s failed" % op
            self.durable = dict(self.m); self.since = {}
            return None
        if op in ("igc", "pgc"):
            return None if rec["res"] == "ROk" else None   # an error return of a GC cycle is not a contents change
        return None
    def crash_ok(self, gets, what):
        """C03: each key reads its durable value or one acknowledged since (here: the running value)."""
        for g in gets:
            k = digest(g["key"])
            if g.get("err"):
                return "%s: Get(%s) errs: %s" % (what, g["key"], g["err"])
            allowed = {self.durable.get(k), self.m.get(k)} | self.since.get(k, set())
            got = bytes.fromhex(g["out"]) if g["found"] else None
            if got not in allowed:
                return "%s: Get(%s) = %s, allowed %s" % (what, g["key"], got, allowed)
        return None
