"""Property oracles evaluated on the implementation's own trace (independent of the Coq model)."""

def digest(keyhex):
    b = bytes.fromhex(keyhex)
    # multihash: code varint, length varint (both one byte in generated keys), digest
    return b[2:]

class MapOracle:
    """C01: every call answers like an in-memory map (keys identified by their digest)."""
    def __init__(self, imm, aspects=("map",)):
        self.aspects = aspects
        self.m = {}
        self.imm = imm
        self.durable = {}          # map at the last completed flush / close
        self.since = {}            # key -> set of values (None = absent) held since the last completed flush
    def _note(self, k):
        self.since.setdefault(k, set()).add(self.m.get(k))
    def expect(self, rec):
        """Returns None if rec agrees with the map, else a description. Updates the map."""
        op = rec["op"]
        if op in ("put", "get", "has", "size", "remove"):
            k = digest(rec["key"])
        if op == "put":
            v = bytes.fromhex(rec["val"]) if rec.get("val") else b""
            if k in self.m and self.imm:
                return None if rec["res"] == "RExists" else "Put of an existing key in immutable mode answered %s" % rec["res"]
            if rec["res"] != "ROk":
                return "Put answered %s" % rec["res"]
            self._note(k)
            self.m[k] = v
            self._note(k)
            return None
        if op == "get":
            if rec["res"] != "ROk":
                return "Get failed"
            if rec["found"] != (k in self.m):
                return "Get found=%s, map says %s" % (rec["found"], k in self.m)
            if rec["found"] and bytes.fromhex(rec.get("out") or "") != self.m[k]:
                return "Get returned %s, map holds %s" % (rec.get("out"), self.m[k].hex())
            return None
        if op == "has":
            if rec["res"] != "ROk":
                return "Has failed"
            return None if rec["found"] == (k in self.m) else "Has=%s, map says %s" % (rec["found"], k in self.m)
        if op == "size":
            if rec["res"] != "ROk":
                return "GetSize failed"
            if rec["found"] != (k in self.m):
                return "GetSize found=%s, map says %s" % (rec["found"], k in self.m)
            if rec["found"] and rec["size"] != len(self.m[k]):
                return "GetSize=%d, map holds %d bytes" % (rec["size"], len(self.m[k]))
            return None
        if op == "remove":
            if rec["res"] != "ROk":
                return "Remove failed"
            if rec["found"] != (k in self.m):
                return "Remove reported %s, map says %s" % (rec["found"], k in self.m)
            self._note(k)
            self.m.pop(k, None)
            self._note(k)
            return None
        if op == "iter":
            if rec["res"] != "ROk":
                return "NewIterator failed"
            got = sorted((digest(k), bytes.fromhex(v)) for k, v in ((rec.get("extra") or {}).get("items") or []))
            want = sorted(self.m.items())
            return None if got == want else "iteration yielded %d bindings, map holds %d (or contents differ)" % (len(got), len(want))
        if op == "flush":
            if rec["res"] != "ROk":
                return "Flush failed"
            ex = rec.get("extra") or {}
            bad = None
            if "gets" in ex and "crash" in self.aspects:
                bad = self.crash_ok(ex["gets"], "crash inside this flush after %d of %d index records" % (ex["crash_keep"], ex["crash_of"]))
            self.durable = dict(self.m); self.since = {}
            return bad
        if op in ("reopen", "rebits", "close", "missize"):
            if rec["res"] != "ROk":
                return "%s failed" % op
            self.durable = dict(self.m); self.since = {}
            ex = rec.get("extra") or {}
            if ex.get("paths_agree") is False and "paths" in self.aspects:
                return "snapshot path and rescan path disagree after Close: %s" % ex.get("paths_detail")
            if "second_close_err" in ex and "paths" in self.aspects:
                return "second Close returned an error: %s" % ex["second_close_err"]
            if op == "missize" and "sizes" in self.aspects:
                if not ex.get("index_size_refused"):
                    return "open with another index file size was not refused with ErrIndexWrongFileSize (%s)" % ex.get("index_size_err")
                if not ex.get("both_refused"):
                    return "open with another bit size AND another index file size was not refused (%s)" % ex.get("both_err")
                if not ex.get("primary_size_refused"):
                    return "open with another primary file size was not refused with ErrPrimaryWrongFileSize (%s)" % ex.get("primary_size_err")
            return None
        if op in ("igc", "pgc"):
            return None if rec["res"] == "ROk" else None   # an error return of a GC cycle is not a contents change
        return None
    def crash_ok(self, gets, what):
        """C03: each key reads its durable value or one acknowledged since (here: the running value)."""
        for g in gets:
            k = digest(g["key"])
            if g.get("err"):
                return "%s: Get(%s) errs: %s" % (what, g["key"], g["err"])
            allowed = {self.durable.get(k), self.m.get(k)} | self.since.get(k, set())
            got = bytes.fromhex(g["out"]) if g["found"] else None
            if got not in allowed:
                return "%s: Get(%s) = %s, allowed %s" % (what, g["key"], got, allowed)
        return None


def dir_invariants(d, quiescent=False):
    """Consistency of the real files at a checkpoint (after Flush / GC). Returns a description or None.
    quiescent: all pools are empty (right after a completed Flush with no concurrent writer)."""
    free = d["free_file"] + d["free_gc"]
    if len(set(free)) != len(free):
        dup = sorted(x for x in set(free) if free.count(x) > 1)
        return "C13: freelist names a location twice: %s" % dup[:3]
    cur = set(d["current"])
    both = cur & set(free)
    if both:
        return "C13: a current location is on the freelist: %s" % sorted(both)[:3]
    busy = set(x for f in d["busy"].values() for x in f)
    dead = set(x for f in d["dead"].values() for x in f)
    if cur & dead:
        return "C07: a current location is marked deleted in the primary: %s" % sorted(cur & dead)[:3]
    for f in d["idx_ref"]:
        if "i.%d" % f not in d["files"]:
            return "C07: the bucket table points into index file %d which does not exist" % f
    if quiescent:
        lost = busy - cur - set(free)
        if lost:
            return "C13: a superseded location is neither on the freelist nor handed to GC (it will never be freed): %s" % sorted(lost)[:3]
        for c in cur:
            if c not in busy:
                return "C07: the index names location %s which is not the start of a complete live primary record" % c
    return None


def c11_drain(text, recs):
    """After everything was removed and flushed and three primary + three index cycles ran: every non-current primary
    file is empty or unlinked, every unreferenced non-current index file is empty or unlinked, storage never grew
    during the cycles, and the cycles after the '#fixedpoint' mark change no file."""
    if "#budgeted-drain" in text:
        gb = [r for r in recs if r["i"] >= 0 and r["op"] == "igcb" and (r.get("extra") or {}).get("dir")]
        if len(gb) < 120:
            return None
        last = gb[-1]["extra"]["dir"]
        files = last["files"]
        inums = sorted(int(n[2:]) for n in files if n.startswith("i.") and n[2:].isdigit())
        for n in inums[:-1]:
            if n not in last["idx_ref"] and files["i.%d" % n] != 0:
                return (gb[-1]["i"], "C11: unreferenced non-current index file i.%d still holds %d bytes after 120 time-limited index GC cycles" % (n, files["i.%d" % n]))
        return None
    nfix = 3
    gcs = [r for r in recs if r["i"] >= 0 and r["op"] in ("pgc", "igc") and (r.get("extra") or {}).get("dir")]
    if len(gcs) < 9:
        return None
    drain = gcs[-9:]
    pre, fix = drain[:6], drain[6:]
    last = pre[-1]["extra"]["dir"]
    files = last["files"]
    dnums = sorted(int(n[2:]) for n in files if n.startswith("d.") and n[2:].isdigit())
    inums = sorted(int(n[2:]) for n in files if n.startswith("i.") and n[2:].isdigit())
    for n in dnums[:-1]:
        if files["d.%d" % n] != 0:
            return (pre[-1]["i"], "C11: non-current primary file d.%d still holds %d bytes after all its keys were removed, flushed, and 3 GC cycles ran" % (n, files["d.%d" % n]))
    for n in inums[:-1]:
        if n not in last["idx_ref"] and files["i.%d" % n] != 0:
            return (pre[-1]["i"], "C11: unreferenced non-current index file i.%d still holds %d bytes after 3 index GC cycles" % (n, files["i.%d" % n]))
    prev = None
    for r in drain:
        st = r["extra"]["dir"]["storage"]
        if prev is not None and st > prev:
            return (r["i"], "C11: reported storage grew from %d to %d during a GC cycle that relocated nothing" % (prev, st))
        prev = st
    base = last["files"]
    for r in fix:
        if r["extra"]["dir"]["files"] != base:
            return (r["i"], "C11: a GC cycle on an unchanged, fully collected store still changed files: %s -> %s" % (base, r["extra"]["dir"]["files"]))
    return None
